(* C18 oracle (superset of the C04 oracle: table ops for setting up content + cursor sessions): replays an operation log (cases.txt, written by harness/src/bin/c04.rs) on the
   EXTRACTED SortedMap specification (coq/Base/SortedMap.v instantiated with Btree/Inst.v) and
   prints, for every operation, what an ordered map returns.  The check compares this text with
   what the real crate returned, line by line, for every storage configuration.

   Only glue lives here: parsing, the commit/abort bookkeeping (committed map vs working map),
   the canonical printer.  Every map operation is the extracted Coq function. *)
open C18_model

(* ---- text <-> extracted numbers *)
let rec pos_of_int i = if i = 1 then XH else if i land 1 = 1 then XI (pos_of_int (i lsr 1)) else XO (pos_of_int (i lsr 1))
let n_of_int i = if i = 0 then N0 else Npos (pos_of_int i)
let rec int_of_pos = function XH -> 1 | XO p -> 2 * int_of_pos p | XI p -> 2 * int_of_pos p + 1
let int_of_n = function N0 -> 0 | Npos p -> int_of_pos p
let byte_tab = Array.init 256 n_of_int
let hexval c = match c with '0'..'9' -> Char.code c - 48 | 'a'..'f' -> Char.code c - 87 | 'A'..'F' -> Char.code c - 55 | _ -> failwith "hex"
let bytes_of_hex (s : string) : n list =
  if s = "-" then []
  else if s.[0] = 'z' then begin
    (* compact form z<len>:<seed> of a pattern value: byte i = (seed + 7*i) mod 256 *)
    match String.split_on_char ':' (String.sub s 1 (String.length s - 1)) with
    | [l; sd] -> let l = int_of_string l and sd = int_of_string sd in
      List.init l (fun i -> byte_tab.((sd + 7 * i) land 255))
    | _ -> failwith "zform" end
  else begin
    let len = String.length s / 2 in
    let r = ref [] in
    for i = len - 1 downto 0 do
      r := byte_tab.(hexval s.[2*i] * 16 + hexval s.[2*i+1]) :: !r
    done; !r end
let bytes_of_hex_z (s : string) : n list =
  bytes_of_hex (String.map (fun c -> if c = ';' then ':' else c) s)
let n_of_dec (s : string) : n =
  (* decimal string -> N, using only extracted-type constructors via repeated doubling of an OCaml int is not
     enough for 64-bit values, so go through hex of the Int64 *)
  let v = Int64.of_string s in
  let rec bits v acc = if Int64.equal v 0L then acc else bits (Int64.shift_right_logical v 1) ((Int64.logand v 1L = 1L) :: acc) in
  (* most significant first *)
  match bits v [] with
  | [] -> N0
  | _ :: rest -> Npos (List.fold_left (fun p b -> if b then XI p else XO p) XH rest)

(* canonical printer shared with the harness: short strings in hex, long ones as #len:fnv1a64 *)
let canon (l : n list) : string =
  let len = List.length l in
  if len = 0 then "-"
  else if len <= 24 then String.concat "" (List.map (fun b -> Printf.sprintf "%02x" (int_of_n b)) l)
  else begin
    let h = ref 0xcbf29ce484222325L in
    List.iter (fun b -> h := Int64.mul (Int64.logxor !h (Int64.of_int (int_of_n b))) 0x100000001b3L) l;
    Printf.sprintf "#%d:%016Lx" len !h end

type kt = KtU64 | KtBytes
let key_of kt (s : string) : key =
  match kt with KtU64 -> key_of_u64_bytes (bytes_of_hex s) | KtBytes -> KBytes (bytes_of_hex s)
let key_bytes (k : key) : n list =
  match k with KU64 x -> le_encode (S (S (S (S (S (S (S (S O)))))))) x | KBytes b -> b
let pk k = canon (key_bytes k)
let pv v = canon v
let pe (k, v) = pk k ^ "=" ^ pv v
let pov = function Some v -> pv v | None -> "none"
let poe = function Some e -> pe e | None -> "none"
let plist l = if l = [] then "-" else String.concat "," l

let bound_of kt (s : string) : key bound =
  if s = "u" then Unbounded
  else if s.[0] = 'i' then Included (key_of kt (String.sub s 1 (String.length s - 1)))
  else if s.[0] = 'e' then Excluded (key_of kt (String.sub s 1 (String.length s - 1)))
  else failwith "bound"

let cmp = key_cmp

let spec_main () =
  let committed = ref [] and w = ref [] and kt = ref KtBytes in
  let dump tag =
    Printf.printf "%s %d %s\n" tag (int_of_n (len !committed)) (plist (List.map pe !committed)) in
  (try
    while true do
      let line = input_line stdin in
      let toks = Array.of_list (String.split_on_char ' ' line) in
      let key i = key_of !kt toks.(i) in
      let value i = bytes_of_hex toks.(i) in
      (match toks.(0) with
       | "C" ->
         committed := []; w := [];
         kt := (match toks.(2) with "u64" -> KtU64 | _ -> KtBytes);
         Printf.printf "C %s\n" toks.(1)
       | "B" -> w := !committed; print_endline "B"
       | "K" -> committed := !w; dump "K"
       | "A" -> w := !committed; dump "A"
       | "O" -> dump "O"
       | "I" ->
         let k = key 1 in
         let old = get cmp !w k in
         w := insert cmp !w k (value 2);
         Printf.printf "I %s\n" (pov old)
       | "R" ->
         let k = key 1 in
         w := insert cmp !w k (value 2);
         print_endline "R ok"
       | "G" -> Printf.printf "G %s\n" (pov (get cmp !w (key 1)))
       | "M" ->
         let k = key 1 in
         (match get cmp !w k with
          | None -> print_endline "M none"
          | Some old ->
            let out = Buffer.create 64 in
            Buffer.add_string out ("M " ^ pv old);
            for i = 2 to Array.length toks - 1 do
              if toks.(i) <> "_" then begin
                w := insert cmp !w k (value i);
                Buffer.add_string out (" " ^ pov (get cmp !w k)) end
            done;
            print_endline (Buffer.contents out))
       | "EO" ->
         let k = key 1 in
         (match get cmp !w k with
          | Some old -> Printf.printf "EO %s\n" (pv old)
          | None -> w := insert cmp !w k (value 2); Printf.printf "EO %s\n" (pov (get cmp !w k)))
       | "EM" ->
         let k = key 1 in
         (match get cmp !w k with
          | Some _ -> w := insert cmp !w k (value 2)
          | None -> w := insert cmp !w k (value 3));
         Printf.printf "EM %s\n" (pov (get cmp !w k))
       | "EI" ->
         let k = key 1 in
         (match get cmp !w k with
          | Some old -> w := insert cmp !w k (value 2); Printf.printf "EI occ %s\n" (pv old)
          | None -> w := insert cmp !w k (value 2); Printf.printf "EI vac %s\n" (pov (get cmp !w k)))
       | "ER" ->
         let k = key 1 in
         (match get cmp !w k with
          | Some old -> w := remove cmp !w k; Printf.printf "ER occ %s\n" (pv old)
          | None -> print_endline "ER vac")
       | "EE" ->
         let k = key 1 in
         (match get cmp !w k with
          | Some old -> w := remove cmp !w k; Printf.printf "EE occ %s\n" (pe (k, old))
          | None -> print_endline "EE vac")
       | "EG" ->
         (match get cmp !w (key 1) with
          | Some v -> Printf.printf "EG occ %s\n" (pv v)
          | None -> print_endline "EG vac")
       | "D" ->
         let k = key 1 in
         let old = get cmp !w k in
         w := remove cmp !w k;
         Printf.printf "D %s\n" (pov old)
       | "F" -> Printf.printf "F %s\n" (poe (first !w))
       | "L" -> Printf.printf "L %s\n" (poe (last !w))
       | "N" -> Printf.printf "N %d\n" (int_of_n (len !w))
       | "Q" ->
         let it = ref (range cmp !w (bound_of !kt toks.(1)) (bound_of !kt toks.(2))) in
         let outs = ref [] in
         String.iter (fun c ->
           match c with
           | 'f' -> let (e, r) = iter_next !it in it := r; outs := (match e with Some e -> pe e | None -> "~") :: !outs
           | 'b' -> let (e, r) = iter_next_back !it in it := r; outs := (match e with Some e -> pe e | None -> "~") :: !outs
           | 'd' -> List.iter (fun e -> outs := pe e :: !outs) !it; it := []
           | 'D' -> List.iter (fun e -> outs := pe e :: !outs) (List.rev !it); it := []
           | _ -> ()) toks.(3);
         Printf.printf "Q %s\n" (plist (List.rev !outs))
       | "W" | "RC" | "RR" ->
         (* cursor session: W = CursorMut on the write transaction's table, RC = read-only Cursor on it,
            RR = read-only Cursor on the committed table.  toks: kind(l|u) bound op... *)
         let src = if toks.(0) = "RR" then !committed else !w in
         let b = bound_of !kt toks.(2) in
         let c = ref (if toks.(1) = "l" then seek_lower cmp src b else seek_upper cmp src b) in
         let outs = ref [] in
         let pr = function
           | CEntry (Some e) -> pe e
           | CEntry None -> "~"
           | CAccepted true -> "ok"
           | CAccepted false -> "rej" in
         for i = 3 to Array.length toks - 1 do
           let t = toks.(i) in
           let op =
             (match t with
              | "pn" -> Some CPeekNext | "pp" -> Some CPeekPrev | "n" -> Some CNext | "p" -> Some CPrev
              | "rn" -> Some CRemoveNext | "rp" -> Some CRemovePrev
              | _ ->
                (match String.split_on_char ':' t with
                 | ["ib"; k; v] -> Some (CInsertBefore (key_of !kt k, bytes_of_hex_z v))
                 | ["ia"; k; v] -> Some (CInsertAfter (key_of !kt k, bytes_of_hex_z v))
                 | _ -> None)) in
           (match op with
            | Some o -> let (x, c') = cursor_step cmp !c o in c := c'; outs := pr x :: !outs
            | None -> ())
         done;
         if toks.(0) = "W" then w := cursor_map !c;
         Printf.printf "%s %s\n" toks.(0) (plist (List.rev !outs))
       | "" -> ()
       | _ -> print_endline "BADLINE")
    done
  with End_of_file -> ())

(* ================================================================================================
   shape mode (S2):  c18_driver shape [marker file]  < shapein.<cfg>.txt  > shapemodel.<cfg>.txt
   For every mutable cursor session the harness recorded the REAL tree before it (P line, Table::verif_shape)
   and the session (W line).  The EXTRACTED splice model (coq/Btree/ShapeCursor.v: s_session = the gap logic of
   Cursor.v driving splice_insert_run / pop_leaf_entry on the shape model) is started from that tree and its
   resulting tree is printed in the harness's canonical format; the check compares it with the real tree
   after the session, node by node (dirty flags and allocated lengths included).
   Glue only: parsing (values are rebuilt as zero bytes of the recorded length: the model reads sizes only),
   the printer, and run-time cross checks that print a marker line (which the real output never contains):
     INV!    the executable invariant checker rejects the model's tree
     ERASE!  erasing the decorations of the result differs from CursorSplice.t_session on the erased tree
     SPEC!   the contents of the result differ from the specification cursor's map after the same script *)
let zero_cache : (int, n list) Hashtbl.t = Hashtbl.create 64
let zeros l = try Hashtbl.find zero_cache l with Not_found -> let z = List.init l (fun _ -> N0) in Hashtbl.add zero_cache l z; z

let shape_main () =
  let kt = ref KtBytes and fk = ref false and fv = ref false and ps = ref (n_of_int 512) and sep = ref key_sep_bytes in
  let pre : (key, n list) sbtree ref = ref sempty in
  let markers : (string, int) Hashtbl.t = Hashtbl.create 64 in
  let mark name = Hashtbl.replace markers name (1 + (try Hashtbl.find markers name with Not_found -> 0)) in
  let hexs (l : n list) = String.concat "" (List.map (fun b -> Printf.sprintf "%02x" (int_of_n b)) l) in
  (* ---- parser of a shape line *)
  let parse_shape (toks : string array) : (key, n list) sbtree =
    (* toks.(1) = length, toks.(2..) = nodes *)
    let len = n_of_dec toks.(1) in
    if Array.length toks < 3 || toks.(2) = "-" then { sb_root = None; sb_len = len }
    else begin
      let prev = ref [] in
      let dec_key (t : string) : key =
        let i = String.index t '.' in
        let shared = int_of_string (String.sub t 0 i) in
        let rest = bytes_of_hex (let h = String.sub t (i + 1) (String.length t - i - 1) in if h = "" then "-" else h) in
        let rec take n l = if n = 0 then [] else (match l with x :: r -> x :: take (n - 1) r | [] -> failwith "shared") in
        let b = take shared !prev @ rest in
        prev := b;
        (match !kt with KtU64 -> key_of_u64_bytes b | KtBytes -> KBytes b) in
      let idx = ref 2 in
      let rec node () : (key, n list) snode =
        let t = toks.(!idx) in incr idx;
        let colon = String.index t ':' in
        let hd = String.sub t 0 colon and items = String.sub t (colon + 1) (String.length t - colon - 1) in
        let leaf = hd.[0] = 'L' in
        let j = ref 1 in
        while hd.[!j] >= '0' && hd.[!j] <= '9' do incr j done;
        let dirty = hd.[!j] = 'd' in
        let slash = String.index hd '/' in
        let alloc = int_of_string (String.sub hd (!j + 1) (slash - !j - 1)) in
        let its = if items = "" then [] else String.split_on_char ',' items in
        if leaf then
          SLeaf (dirty, n_of_int alloc,
                 List.map (fun it -> let e = String.index it '=' in
                            let k = dec_key (String.sub it 0 e) in
                            let vl = int_of_string (String.sub it (e + 1) (String.length it - e - 1)) in
                            (k, zeros vl)) its)
        else begin
          let ks = List.map dec_key its in
          let c0 = node () in
          let rest = List.map (fun k -> let c = node () in (k, c)) ks in
          SBranch (dirty, c0, rest) end in
      let root = node () in
      { sb_root = Some root; sb_len = len } end in
  (* ---- printer (harness/src/bin/c18.rs: shape_text) *)
  let shape_text (st : (key, n list) sbtree) : string =
    let buf = Buffer.create 4096 in
    Buffer.add_string buf (Printf.sprintf "S %d" (int_of_n st.sb_len));
    let prev = ref [] in
    let pkey (k : key) =
      let b = key_bytes k in
      let rec common a c acc = match a, c with x :: a', y :: c' when x = y -> common a' c' (acc + 1) | _ -> acc in
      let shared = common !prev b 0 in
      let rec drop n l = if n = 0 then l else (match l with _ :: r -> drop (n - 1) r | [] -> []) in
      prev := b;
      let rest = drop shared b in
      string_of_int shared ^ "." ^ (if rest = [] then "-" else hexs rest) in
    let rec go depth (t : (key, n list) snode) =
      match t with
      | SLeaf (d, a, es) ->
        let used = leaf_required !fk !fv (n_of_int (List.length es)) (leaf_bytes key_size val_size es) in
        Buffer.add_string buf (Printf.sprintf " L%d%c%d/%d:" depth (if d then 'd' else 'c') (int_of_n a) (int_of_n used));
        Buffer.add_string buf (String.concat "," (List.map (fun (k, v) -> let s = pkey k in s ^ "=" ^ string_of_int (List.length v)) es))
      | SBranch (d, c0, rest) ->
        let used = branch_required !fk (n_of_int (List.length rest)) (keys_size key_size (List.map fst rest)) in
        Buffer.add_string buf (Printf.sprintf " B%d%c%d/%d:" depth (if d then 'd' else 'c') (int_of_n (alloc_for !ps used)) (int_of_n used));
        Buffer.add_string buf (String.concat "," (List.map (fun (s, _) -> pkey s) rest));
        go (depth + 1) c0; List.iter (fun (_, c) -> go (depth + 1) c) rest in
    (match st.sb_root with None -> Buffer.add_string buf " -" | Some t -> go 0 t);
    Buffer.contents buf in
  let rec height (t : (key, n list) snode) = match t with SLeaf _ -> 1 | SBranch (_, c0, _) -> 1 + height c0 in
  let rec count_dirty (t : (key, n list) snode) = match t with
    | SLeaf (d, _, _) -> if d then 1 else 0
    | SBranch (d, c0, rest) -> (if d then 1 else 0) + count_dirty c0 + List.fold_left (fun a (_, c) -> a + count_dirty c) 0 rest in
  (try
    while true do
      let line = input_line stdin in
      let toks = Array.of_list (String.split_on_char ' ' line) in
      (match toks.(0) with
       | "C" ->
         kt := (match toks.(2) with "u64" -> KtU64 | _ -> KtBytes);
         fk := (toks.(2) = "u64"); fv := (toks.(3) = "u64");
         sep := (match toks.(2) with "u64" -> key_sep_left | "str" -> key_sep_str | _ -> key_sep_bytes);
         ps := n_of_int (int_of_string toks.(4));
         pre := sempty;
         Printf.printf "C %s\n" toks.(1)
       | "P" -> pre := parse_shape toks
       | "W" ->
         let b = bound_of !kt toks.(2) in
         let lower = toks.(1) = "l" in
         let ops = ref [] in
         for i = 3 to Array.length toks - 1 do
           let t = toks.(i) in
           (match t with
            | "pn" -> ops := CPeekNext :: !ops | "pp" -> ops := CPeekPrev :: !ops
            | "n" -> ops := CNext :: !ops | "p" -> ops := CPrev :: !ops
            | "rn" -> ops := CRemoveNext :: !ops | "rp" -> ops := CRemovePrev :: !ops
            | _ ->
              (match String.split_on_char ':' t with
               | ["ib"; k; v] -> ops := CInsertBefore (key_of !kt k, bytes_of_hex_z v) :: !ops
               | ["ia"; k; v] -> ops := CInsertAfter (key_of !kt k, bytes_of_hex_z v) :: !ops
               | _ -> ()))
         done;
         let ops = List.rev !ops in
         let (outs, post) = s_session key_cmp key_size val_size !fk !fv !ps !sep iNSERT_FLUSH_BYTES !pre lower b ops in
         print_endline (shape_text post);
         (* cross checks *)
         if not (m_tree_checkb (erase_tree post)) then print_endline "INV!";
         let (louts, lpost) = t_session key_cmp key_size val_size !fk !fv !ps !sep iNSERT_FLUSH_BYTES (erase_tree !pre) lower b ops in
         if compare lpost (erase_tree post) <> 0 || compare louts outs <> 0 then print_endline "ERASE! session (CursorSplice.t_session on the erased tree gives another tree)";
         let m0 = abs_tree (erase_tree !pre) in
         let c0 = if lower then seek_lower key_cmp m0 b else seek_upper key_cmp m0 b in
         let (souts, c1) = List.fold_left (fun (acc, c) o -> let (x, c') = cursor_step key_cmp c o in (x :: acc, c')) ([], c0) ops in
         if compare (cursor_map c1) (abs_tree (erase_tree post)) <> 0 then print_endline "SPEC! session contents";
         if compare (List.rev souts) outs <> 0 then print_endline "SPEC! session outputs";
         (* evidence markers *)
         let h0 = (match !pre.sb_root with None -> 0 | Some t -> height t) and h1 = (match post.sb_root with None -> 0 | Some t -> height t) in
         let acc = List.length (List.filter (fun x -> x = CAccepted true) outs) in
         mark "sessions";
         if acc > 0 then mark "sessions-with-a-splice";
         if acc > 0 then mark (Printf.sprintf "splice:height-before=%d" h0);
         if h1 > h0 && h0 > 0 then mark "splice:root-growth";
         if h0 = 0 && acc > 0 then mark "splice:into-empty-tree";
         if acc >= 20 then mark "sessions-with>=20-accepted-inserts";
         (match !pre.sb_root, post.sb_root with
          | Some a, Some b when acc > 0 && count_dirty a = 0 -> mark "splice:on-committed-tree"
          | Some a, Some b when acc > 0 -> mark "splice:on-tree-with-uncommitted-pages"
          | _ -> ())
       | "" -> ()
       | _ -> print_endline "BADLINE")
    done
  with End_of_file -> ());
  let oc = open_out (if Array.length Sys.argv > 2 then Sys.argv.(2) else "shape_markers.txt") in
  List.iter (fun (k, v) -> Printf.fprintf oc "%s=%d\n" k v)
    (List.sort compare (Hashtbl.fold (fun k v acc -> (k, v) :: acc) markers []));
  close_out oc

let () =
  if Array.length Sys.argv > 1 && Sys.argv.(1) = "shape" then shape_main () else spec_main ()
