(* Line-protocol driver around the extracted page-ownership model (coq/Txn/Own.v).

   stdin: the trace written by harness/src/bin/c06.rs (format: harness/src/own_util.rs)
     H <history> <config>    new history
     O <op> <args>           model step(s) of the API call just made:
        bw | md <pages> | ms <pages> | br <h> | dp <h> | sc <h> <0|1> | sd <h> | rs <h> | ab
        | cd <qr> <pcf> <D'>|<Sd>|<So> | cn <D'>|<Sd> | ro
     X <label>               opaque API call: no model step, the model is re-synchronised
     S <label> k=v ...       observed abstract state
   stdout, one line per S line:
     <label> S3=ok|FAIL:<conjuncts> S2=ok|first|opaque|ORACLE:<op index>|DIFF:<fields>
   S3 = extracted `own_checkb` on the observed state (the proved checker).
   S2 = extracted `step` applied to the PREVIOUS observed state under the listed ops, compared field by
        field (as sets) with this observed state; `oracle_ok` must hold before every op.
   Numbers stay the extracted positive / N; OCaml ints are used only to parse decimal text and to sort
   for the set comparison. *)
open C06_model

let rec pos_of_int (i : int) : positive =
  if i <= 0 then failwith "pos_of_int" else if i = 1 then XH
  else if i land 1 = 1 then XI (pos_of_int (i lsr 1)) else XO (pos_of_int (i lsr 1))
let n_of_int (i : int) : n = if i = 0 then N0 else Npos (pos_of_int i)
let rec int_of_pos = function XH -> 1 | XO p -> 2 * int_of_pos p | XI p -> 2 * int_of_pos p + 1
let int_of_n = function N0 -> 0 | Npos p -> int_of_pos p

let split c s = if s = "" then [] else String.split_on_char c s
let plist (s : string) : positive list =
  if s = "-" || s = "" then [] else List.map (fun x -> pos_of_int (int_of_string x)) (split ',' s)
let nlist (s : string) : n list =
  if s = "-" || s = "" then [] else List.map (fun x -> n_of_int (int_of_string x)) (split ',' s)
let ptab (s : string) : (n * positive list) list =
  if s = "-" || s = "" then [] else
    List.map (fun e -> match split ':' e with
      | [k; v] -> (n_of_int (int_of_string k), plist v)
      | _ -> failwith ("bad table entry " ^ e)) (split ';' s)
let pver (s : string) : ver =
  match split '|' s with
  | [i; d; y] -> { vid = n_of_int (int_of_string i); vdata = plist d; vsys = plist y }
  | _ -> failwith ("bad version " ^ s)
let ppins (s : string) : pin list =
  if s = "-" || s = "" then [] else
    List.map (fun e -> match split ':' e with
      | [h; t; p; pages] -> { ph = n_of_int (int_of_string h); ptxn = n_of_int (int_of_string t);
                              ppersist = (p = "1"); ppages = plist pages }
      | _ -> failwith ("bad pin " ^ e)) (split ';' s)
let ppend (s : string) : (n * n) list =
  if s = "-" || s = "" then [] else
    List.map (fun e -> match split ':' e with
      | [a; b] -> (n_of_int (int_of_string a), n_of_int (int_of_string b))
      | _ -> failwith ("bad pend " ^ e)) (split ';' s)

let parse_state (fields : string list) : st =
  let tbl = Hashtbl.create 32 in
  List.iter (fun f -> match String.index_opt f '=' with
    | Some i -> Hashtbl.replace tbl (String.sub f 0 i) (String.sub f (i + 1) (String.length f - i - 1))
    | None -> ()) fields;
  let g k = try Hashtbl.find tbl k with Not_found -> failwith ("missing field " ^ k) in
  { alloc = plist (g "alloc"); lastid = n_of_int (int_of_string (g "lastid"));
    dur = pver (g "dur"); lat = pver (g "lat");
    dfreed = ptab (g "dfreed"); sfreed = ptab (g "sfreed"); ufreed = ptab (g "ufreed");
    unpers = plist (g "unpers"); pca = plist (g "pca"); pins = ppins (g "pins"); pend = ppend (g "pend");
    inw = (g "inw" = "1"); wdata = plist (g "wdata"); wsys = plist (g "wsys"); wasc = plist (g "wasc");
    wdfr = plist (g "wdfr"); wsfr = plist (g "wsfr"); wdfreed = ptab (g "wdfreed");
    wrest = (if g "wrest" = "-" then None else Some (n_of_int (int_of_string (g "wrest"))));
    wcreated = nlist (g "wcreated"); wdeleted = nlist (g "wdeleted") }

let parse_op (args : string list) : op =
  match args with
  | ["bw"] -> OBeginWrite
  | ["md"; p] -> OMutData (plist p)
  | ["ms"; p] -> OMutSys (plist p)
  | ["br"; h] -> OBeginRead (n_of_int (int_of_string h))
  | ["dp"; h] -> ODropPin (n_of_int (int_of_string h))
  | ["sc"; h; p] -> OSpCreate (n_of_int (int_of_string h), p = "1")
  | ["sd"; h] -> OSpDelete (n_of_int (int_of_string h))
  | ["rs"; h] -> ORestore (n_of_int (int_of_string h))
  | ["ab"] -> OAbort
  | ["cd"; qr; pcf; sets] ->
    (match split '|' sets with
     | [d; sd; so] -> OCommitDur (plist d, plist sd, plist so, qr = "1", pcf = "1")
     | _ -> failwith "cd sets")
  | ["cn"; sets] ->
    (match split '|' sets with
     | [d; sd] -> OCommitNd (plist d, plist sd)
     | _ -> failwith "cn sets")
  | ["ro"] -> OReopen
  | _ -> failwith ("bad op " ^ String.concat " " args)

(* ---- set comparison of model state and observed state (driver-level, on OCaml ints) *)
let sorted_p (l : positive list) = List.sort compare (List.map int_of_pos l)
let sorted_n (l : n list) = List.sort compare (List.map int_of_n l)
let canon_tab (t : (n * positive list) list) =
  let h = Hashtbl.create 8 in
  List.iter (fun (k, v) -> let k = int_of_n k in
    let old = try Hashtbl.find h k with Not_found -> [] in
    Hashtbl.replace h k (List.map int_of_pos v @ old)) t;
  let l = Hashtbl.fold (fun k v acc -> if v = [] then acc else (k, List.sort compare v) :: acc) h [] in
  List.sort compare l
let canon_pins (l : pin list) =
  List.sort compare (List.map (fun x -> (int_of_n x.ph, int_of_n x.ptxn, x.ppersist, sorted_p x.ppages)) l)
let canon_pend l = List.sort compare (List.map (fun (a, b) -> (int_of_n a, int_of_n b)) l)
let canon_ver v = (int_of_n v.vid, sorted_p v.vdata, sorted_p v.vsys)

let diff_fields (m : st) (o : st) : string list =
  let d = ref [] in
  let chk name b = if not b then d := name :: !d in
  chk "alloc" (sorted_p m.alloc = sorted_p o.alloc);
  chk "lastid" (int_of_n m.lastid = int_of_n o.lastid);
  chk "dur" (canon_ver m.dur = canon_ver o.dur);
  chk "lat" (canon_ver m.lat = canon_ver o.lat);
  chk "dfreed" (canon_tab m.dfreed = canon_tab o.dfreed);
  chk "sfreed" (canon_tab m.sfreed = canon_tab o.sfreed);
  chk "ufreed" (canon_tab m.ufreed = canon_tab o.ufreed);
  chk "unpers" (sorted_p m.unpers = sorted_p o.unpers);
  chk "pca" (sorted_p m.pca = sorted_p o.pca);
  chk "pins" (canon_pins m.pins = canon_pins o.pins);
  chk "pend" (canon_pend m.pend = canon_pend o.pend);
  chk "inw" (m.inw = o.inw);
  chk "wdata" (sorted_p m.wdata = sorted_p o.wdata);
  chk "wsys" (sorted_p m.wsys = sorted_p o.wsys);
  chk "wasc" (sorted_p m.wasc = sorted_p o.wasc);
  chk "wdfr" (sorted_p m.wdfr = sorted_p o.wdfr);
  chk "wsfr" (sorted_p m.wsfr = sorted_p o.wsfr);
  chk "wdfreed" (canon_tab m.wdfreed = canon_tab o.wdfreed);
  chk "wrest" ((match m.wrest with None -> -1 | Some x -> int_of_n x) = (match o.wrest with None -> -1 | Some x -> int_of_n x));
  chk "wcreated" (sorted_n m.wcreated = sorted_n o.wcreated);
  chk "wdeleted" (sorted_n m.wdeleted = sorted_n o.wdeleted);
  List.rev !d

(* which conjuncts of own_checkb fail (only evaluated when own_checkb = false) *)
let explain (s : st) : string list =
  let d = ref [] in
  let chk name b = if not b then d := name :: !d in
  chk "O1-committed(alloc=tree+freed-tables+unpersisted-freed+uncommitted)" (balb s.alloc (owned_c s @ s.wasc));
  chk "O1-working(alloc=working-trees+queues+tables)" (balb s.alloc (owned_w s));
  List.iter (fun x -> chk (Printf.sprintf "O2/O3-pin(handle=%d,txn=%d)" (int_of_n x.ph) (int_of_n x.ptxn)) (pin_okb s x)) s.pins;
  chk "O2-durable-data-covered" (inclb s.dur.vdata (cover_c s.dur.vid s) && inclb s.dur.vdata (cover_w s.dur.vid s));
  chk "O2-durable-system-covered" (inclb s.dur.vsys (scover_c s.dur.vid s) && inclb s.dur.vsys (scover_w s.dur.vid s));
  chk "latest-in-working" (inclb s.lat.vdata (s.wdata @ s.wdfr) && inclb s.lat.vsys (s.wsys @ s.wsfr));
  chk "O4-unpersisted-vs-durable" (disjb s.unpers (s.dur.vdata @ s.dur.vsys));
  chk "O4-post-commit-allocations-unpersisted" (inclb s.pca s.unpers);
  List.iter (fun e -> chk "pending-nondurable-ids" (pend_okb s e)) s.pend;
  chk "freed-table-keys" (keys_leb s.lat.vid s.dfreed && keys_leb s.lat.vid s.sfreed && keys_leb s.lat.vid s.ufreed && keys_leb s.lat.vid s.wdfreed);
  (match s.pend with [] -> chk "no-pending=>latest=durable,no-unpersisted" (veqb s.lat s.dur && s.unpers = []) | _ -> ());
  if !d = [] then d := ["ids"];
  List.rev !d

let () =
  let prev : st option ref = ref None in
  let ops : op list ref = ref [] in
  let opaque = ref false in
  (try
     while true do
       let line = input_line stdin in
       if line <> "" then begin
         match String.split_on_char ' ' line with
         | "H" :: _ -> prev := None; ops := []; opaque := false
         | "O" :: args -> ops := parse_op args :: !ops
         | "X" :: _ -> opaque := true
         | "S" :: label :: fields ->
           let o = parse_state fields in
           let s3 = if own_checkb o then "ok" else "FAIL:" ^ String.concat "," (explain o) in
           let s2 =
             if !opaque then "opaque"
             else match !prev with
               | None -> "first"
               | Some p ->
                 let rec go s i = function
                   | [] -> Ok s
                   | op :: r -> if oracle_ok s op then go (step s op) (i + 1) r else Error i in
                 (match go p 0 (List.rev !ops) with
                  | Error i -> Printf.sprintf "ORACLE:%d" i
                  | Ok m -> (match diff_fields m o with [] -> "ok" | l -> "DIFF:" ^ String.concat "," l))
           in
           Printf.printf "%s S3=%s S2=%s\n" label s3 s2;
           prev := Some o; ops := []; opaque := false
         | _ -> failwith ("bad line: " ^ (String.sub line 0 (min 40 (String.length line))))
       end
     done
   with End_of_file -> ())
