(* Line-protocol driver around the extracted allocation-record model (coq/Txn/AllocRec.v on top of
   coq/Txn/Own.v).

   stdin: the trace written by `c07 rec` (harness/src/c07_rec.rs; format of harness/src/own_util.rs with the
   S lines extended by dalloc= ualloc= trk= trkon= dirty= valid= winval=)
   stdout, one line per S line:
     <label> S3=ok|FAIL:<conjuncts> S2=ok|first|opaque|ORACLE:<op index>|DIFF:<fields> R=-|ok|DIFF:<fields>
   S3 = extracted `own_checkb` (state) and `rinv_checkb` (state, records): the proved checkers.
   S2 = extracted `step2` applied to the PREVIOUS observed (state, records) under the listed ops, compared
        field by field (as sets) with this observation; `oracle_ok2` must hold before every op.
   R  = on a restore: the RECORD-BASED computation `restore_rec` (tracker pages freed, DATA_ALLOCATED /
        unpersisted allocations after the savepoint queued) followed by the remaining ops, compared with what
        the implementation did (allocator, allocated-since-commit, queue of freed data pages, ...).
   Numbers stay the extracted positive / N; OCaml ints only parse decimal text and sort for set comparison. *)
open C07r_model

let rec pos_of_int (i : int) : positive =
  if i <= 0 then failwith "pos_of_int" else if i = 1 then XH
  else if i land 1 = 1 then XI (pos_of_int (i lsr 1)) else XO (pos_of_int (i lsr 1))
let n_of_int (i : int) : n = if i = 0 then N0 else Npos (pos_of_int i)
let rec int_of_pos = function XH -> 1 | XO p -> 2 * int_of_pos p | XI p -> 2 * int_of_pos p + 1
let int_of_n = function N0 -> 0 | Npos p -> int_of_pos p

let split c s = if s = "" then [] else String.split_on_char c s
let plist (s : string) : positive list =
  if s = "-" || s = "" then [] else List.map (fun x -> pos_of_int (int_of_string x)) (split ',' s)
let nlist (s : string) : n list =
  if s = "-" || s = "" then [] else List.map (fun x -> n_of_int (int_of_string x)) (split ',' s)
let ptab (s : string) : (n * positive list) list =
  if s = "-" || s = "" then [] else
    List.map (fun e -> match split ':' e with
      | [k; v] -> (n_of_int (int_of_string k), plist v)
      | _ -> failwith ("bad table entry " ^ e)) (split ';' s)
let pver (s : string) : ver =
  match split '|' s with
  | [i; d; y] -> { vid = n_of_int (int_of_string i); vdata = plist d; vsys = plist y }
  | _ -> failwith ("bad version " ^ s)
let ppins (s : string) : pin list =
  if s = "-" || s = "" then [] else
    List.map (fun e -> match split ':' e with
      | [h; t; p; pages] -> { ph = n_of_int (int_of_string h); ptxn = n_of_int (int_of_string t);
                              ppersist = (p = "1"); ppages = plist pages }
      | _ -> failwith ("bad pin " ^ e)) (split ';' s)
let ppairs (s : string) : (n * n) list =
  if s = "-" || s = "" then [] else
    List.map (fun e -> match split ':' e with
      | [a; b] -> (n_of_int (int_of_string a), n_of_int (int_of_string b))
      | _ -> failwith ("bad pair " ^ e)) (split ';' s)

let parse_state (fields : string list) : st * arec =
  let tbl = Hashtbl.create 32 in
  List.iter (fun f -> match String.index_opt f '=' with
    | Some i -> Hashtbl.replace tbl (String.sub f 0 i) (String.sub f (i + 1) (String.length f - i - 1))
    | None -> ()) fields;
  let g k = try Hashtbl.find tbl k with Not_found -> failwith ("missing field " ^ k) in
  ({ alloc = plist (g "alloc"); lastid = n_of_int (int_of_string (g "lastid"));
     dur = pver (g "dur"); lat = pver (g "lat");
     dfreed = ptab (g "dfreed"); sfreed = ptab (g "sfreed"); ufreed = ptab (g "ufreed");
     unpers = plist (g "unpers"); pca = plist (g "pca"); pins = ppins (g "pins"); pend = ppairs (g "pend");
     inw = (g "inw" = "1"); wdata = plist (g "wdata"); wsys = plist (g "wsys"); wasc = plist (g "wasc");
     wdfr = plist (g "wdfr"); wsfr = plist (g "wsfr"); wdfreed = ptab (g "wdfreed");
     wrest = (if g "wrest" = "-" then None else Some (n_of_int (int_of_string (g "wrest"))));
     wcreated = nlist (g "wcreated"); wdeleted = nlist (g "wdeleted") },
   { dalloc = ptab (g "dalloc"); ualloc = ptab (g "ualloc"); trk = plist (g "trk");
     trk_on = (g "trkon" = "1"); dirty = (g "dirty" = "1"); valid = ppairs (g "valid");
     winval = nlist (g "winval") })

let parse_op (args : string list) : op =
  match args with
  | ["bw"] -> OBeginWrite
  | ["md"; p] -> OMutData (plist p)
  | ["ms"; p] -> OMutSys (plist p)
  | ["br"; h] -> OBeginRead (n_of_int (int_of_string h))
  | ["dp"; h] -> ODropPin (n_of_int (int_of_string h))
  | ["sc"; h; p] -> OSpCreate (n_of_int (int_of_string h), p = "1")
  | ["sd"; h] -> OSpDelete (n_of_int (int_of_string h))
  | ["rs"; h] -> ORestore (n_of_int (int_of_string h))
  | ["ab"] -> OAbort
  | ["cd"; qr; pcf; sets] ->
    (match split '|' sets with
     | [d; sd; so] -> OCommitDur (plist d, plist sd, plist so, qr = "1", pcf = "1")
     | _ -> failwith "cd sets")
  | ["cn"; sets] ->
    (match split '|' sets with
     | [d; sd] -> OCommitNd (plist d, plist sd)
     | _ -> failwith "cn sets")
  | ["ro"] -> OReopen
  | _ -> failwith ("bad op " ^ String.concat " " args)

(* ---- set comparison (driver-level, on OCaml ints) *)
let sorted_p (l : positive list) = List.sort compare (List.map int_of_pos l)
let sorted_n (l : n list) = List.sort compare (List.map int_of_n l)
let canon_tab (t : (n * positive list) list) =
  let h = Hashtbl.create 8 in
  List.iter (fun (k, v) -> let k = int_of_n k in
    let old = try Hashtbl.find h k with Not_found -> [] in
    Hashtbl.replace h k (List.map int_of_pos v @ old)) t;
  let l = Hashtbl.fold (fun k v acc -> if v = [] then acc else (k, List.sort compare v) :: acc) h [] in
  List.sort compare l
let canon_pins (l : pin list) =
  List.sort compare (List.map (fun x -> (int_of_n x.ph, int_of_n x.ptxn, x.ppersist, sorted_p x.ppages)) l)
let canon_pairs l = List.sort compare (List.map (fun (a, b) -> (int_of_n a, int_of_n b)) l)
let canon_ver v = (int_of_n v.vid, sorted_p v.vdata, sorted_p v.vsys)

let diff_st (m : st) (o : st) : string list =
  let d = ref [] in
  let chk name b = if not b then d := name :: !d in
  chk "alloc" (sorted_p m.alloc = sorted_p o.alloc);
  chk "lastid" (int_of_n m.lastid = int_of_n o.lastid);
  chk "dur" (canon_ver m.dur = canon_ver o.dur);
  chk "lat" (canon_ver m.lat = canon_ver o.lat);
  chk "dfreed" (canon_tab m.dfreed = canon_tab o.dfreed);
  chk "sfreed" (canon_tab m.sfreed = canon_tab o.sfreed);
  chk "ufreed" (canon_tab m.ufreed = canon_tab o.ufreed);
  chk "unpers" (sorted_p m.unpers = sorted_p o.unpers);
  chk "pca" (sorted_p m.pca = sorted_p o.pca);
  chk "pins" (canon_pins m.pins = canon_pins o.pins);
  chk "pend" (canon_pairs m.pend = canon_pairs o.pend);
  chk "inw" (m.inw = o.inw);
  chk "wdata" (sorted_p m.wdata = sorted_p o.wdata);
  chk "wsys" (sorted_p m.wsys = sorted_p o.wsys);
  chk "wasc" (sorted_p m.wasc = sorted_p o.wasc);
  chk "wdfr" (sorted_p m.wdfr = sorted_p o.wdfr);
  chk "wsfr" (sorted_p m.wsfr = sorted_p o.wsfr);
  chk "wdfreed" (canon_tab m.wdfreed = canon_tab o.wdfreed);
  chk "wrest" ((match m.wrest with None -> -1 | Some x -> int_of_n x) = (match o.wrest with None -> -1 | Some x -> int_of_n x));
  chk "wcreated" (sorted_n m.wcreated = sorted_n o.wcreated);
  chk "wdeleted" (sorted_n m.wdeleted = sorted_n o.wdeleted);
  List.rev !d

let diff_rec (m : arec) (o : arec) : string list =
  let d = ref [] in
  let chk name b = if not b then d := name :: !d in
  chk "DATA_ALLOCATED" (canon_tab m.dalloc = canon_tab o.dalloc);
  chk "unpersisted.allocations" (canon_tab m.ualloc = canon_tab o.ualloc);
  chk "PageTracker.pages" (sorted_p m.trk = sorted_p o.trk);
  chk "PageTracker.tracking" (m.trk_on = o.trk_on);
  chk "dirty" (m.dirty = o.dirty);
  chk "valid_savepoints" (canon_pairs m.valid = canon_pairs o.valid);
  (* `invalidated` is a set in the code, a list with repetitions in the model *)
  chk "invalidated" (List.sort_uniq compare (sorted_n m.winval) = List.sort_uniq compare (sorted_n o.winval));
  List.rev !d

(* which conjuncts fail (only evaluated when a checker says false) *)
let explain_own (s : st) : string list =
  let d = ref [] in
  let chk name b = if not b then d := name :: !d in
  chk "O1-committed(alloc=tree+freed-tables+unpersisted-freed+uncommitted)" (balb s.alloc (owned_c s @ s.wasc));
  chk "O1-working(alloc=working-trees+queues+tables)" (balb s.alloc (owned_w s));
  List.iter (fun x -> chk (Printf.sprintf "O2/O3-pin(handle=%d,txn=%d)" (int_of_n x.ph) (int_of_n x.ptxn)) (pin_okb s x)) s.pins;
  chk "O2-durable-data-covered" (inclb s.dur.vdata (cover_c s.dur.vid s) && inclb s.dur.vdata (cover_w s.dur.vid s));
  chk "O2-durable-system-covered" (inclb s.dur.vsys (scover_c s.dur.vid s) && inclb s.dur.vsys (scover_w s.dur.vid s));
  chk "latest-in-working" (inclb s.lat.vdata (s.wdata @ s.wdfr) && inclb s.lat.vsys (s.wsys @ s.wsfr));
  chk "O4-unpersisted-vs-durable" (disjb s.unpers (s.dur.vdata @ s.dur.vsys));
  chk "O4-post-commit-allocations-unpersisted" (inclb s.pca s.unpers);
  List.iter (fun e -> chk "pending-nondurable-ids" (pend_okb s e)) s.pend;
  chk "freed-table-keys" (keys_leb s.lat.vid s.dfreed && keys_leb s.lat.vid s.sfreed && keys_leb s.lat.vid s.ufreed && keys_leb s.lat.vid s.wdfreed);
  (match s.pend with [] -> chk "no-pending=>latest=durable,no-unpersisted" (veqb s.lat s.dur && s.unpers = []) | _ -> ());
  if !d = [] then d := ["own-ids"];
  List.rev !d

let explain_rec (s : st) (r : arec) : string list =
  let d = ref [] in
  let chk name b = if not b then d := name :: !d in
  List.iter (fun e -> chk (Printf.sprintf "valid-savepoint-has-pin(handle=%d,txn=%d)" (int_of_n (fst e)) (int_of_n (snd e)))
                (existsb (sp_pinb e) s.pins)) r.valid;
  chk "pin-handles-unique" (nodupN (List.map (fun x -> x.ph) s.pins));
  chk "savepoint-ids-grow-with-transactions"
    (List.for_all (fun e1 -> List.for_all (fun e2 -> int_of_n (fst e1) > int_of_n (fst e2) || int_of_n (snd e1) <= int_of_n (snd e2)) r.valid) r.valid);
  List.iter (fun e -> chk (Printf.sprintf "record(key=%d)-names-page-outside-data-lineage(committed-view)" (int_of_n (fst e)))
                (rec_okb (fun a -> cover_c a s) e)) (recs r);
  List.iter (fun e -> chk (Printf.sprintf "record(key=%d)-names-page-outside-data-lineage(working-view)" (int_of_n (fst e)))
                (rec_okb (fun a -> cover_w a s) e)) (recs r);
  List.iter (fun e -> chk (Printf.sprintf "O5-committed(savepoint=%d,txn=%d):records-after-it!=pages-allocated-since" (int_of_n (fst e)) (int_of_n (snd e)))
                (o5cb s r e)) r.valid;
  List.iter (fun e -> chk (Printf.sprintf "O5-working(savepoint=%d,txn=%d):records-after-it+tracker!=pages-allocated-since" (int_of_n (fst e)) (int_of_n (snd e)))
                (o5wb s r e)) r.valid;
  chk "records-name-uncommitted-pages" (disjb (flat (recs r)) s.wasc);
  chk "tracker-within-data-tree-and-uncommitted" (inclb r.trk s.wdata && inclb r.trk s.wasc);
  chk "tracking-disabled-although-a-savepoint-exists" (r.trk_on || (r.valid = [] && r.trk = [] && r.dirty));
  chk "record-keys-beyond-latest-commit" (keys_leb s.lat.vid r.dalloc && keys_leb s.lat.vid r.ualloc);
  chk "unpersisted.allocations-not-unpersisted" (inclb (flat r.ualloc) s.unpers);
  chk "DATA_ALLOCATED-names-unpersisted-page" (disjb (flat r.dalloc) s.unpers);
  chk "allocation-record-of-post-commit-allocation" (disjb (flat r.ualloc) s.pca);
  chk "post-commit-allocations-allocated-and-committed" (inclb s.pca s.alloc && disjb s.pca s.wasc);
  chk "txn-local-record-state-outside-transaction" (s.inw || (r.trk = [] && r.winval = [] && r.trk_on && not r.dirty));
  chk "clean-transaction-has-changes" (r.dirty || (inclb (s.wdata @ s.wdfr) s.lat.vdata && s.wrest = None && r.winval = [] && r.trk_on));
  if !d = [] then d := ["restored-transaction-vs-valid-savepoints"];
  List.rev !d

let () =
  let prev : (st * arec) option ref = ref None in
  let ops : op list ref = ref [] in
  let opaque = ref false in
  (try
     while true do
       let line = input_line stdin in
       if line <> "" then begin
         match String.split_on_char ' ' line with
         | "H" :: _ -> prev := None; ops := []; opaque := false
         | "O" :: args -> ops := parse_op args :: !ops
         | "X" :: _ -> opaque := true
         | "S" :: label :: fields ->
           let (os, orr) = parse_state fields in
           let f1 = if own_checkb os then [] else explain_own os in
           let f2 = if rinv_checkb (os, orr) then [] else explain_rec os orr in
           let s3 = match f1 @ f2 with [] -> "ok" | l -> "FAIL:" ^ String.concat "," l in
           let opl = List.rev !ops in
           let s2 =
             if !opaque then "opaque"
             else match !prev with
               | None -> "first"
               | Some p ->
                 let rec go x i = function
                   | [] -> Ok x
                   | op :: r -> if oracle_ok2 x op then go (step2 x op) (i + 1) r else Error i in
                 (match go p 0 opl with
                  | Error i -> Printf.sprintf "ORACLE:%d" i
                  | Ok (ms, mr) -> (match diff_st ms os @ diff_rec mr orr with [] -> "ok" | l -> "DIFF:" ^ String.concat "," l))
           in
           let rr =
             match !prev, opl with
             | Some (ps, pr), (ORestore h :: rest) when not !opaque ->
               let s1 = restore_rec h ps pr in
               let m = List.fold_left step s1 rest in
               (match diff_st m os with [] -> "ok" | l -> "DIFF:" ^ String.concat "," l)
             | _ -> "-"
           in
           Printf.printf "%s S3=%s S2=%s R=%s\n" label s3 s2 rr;
           prev := Some (os, orr); ops := []; opaque := false
         | _ -> failwith ("bad line: " ^ (String.sub line 0 (min 40 (String.length line))))
       end
     done
   with End_of_file -> ())
