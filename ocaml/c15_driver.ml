(* Line-protocol driver around the extracted C15 model (coq/Types/KeyTypes.v).

   usage:  c15_driver model   < cases.txt  > model.txt      S2: what the model computes from the VALUES
           c15_driver oracle  < merged.txt > verdict.txt    S3: the property itself on the implementation's outputs

   cases.txt
     T <tid> <type>                type ::= unit|bool|char|u8..u128|i8..i128|str|string|bytes|fb<N>|
                                            opt(<type>)|arr(<n>,<type>)|tup(<type>,...)
     C <tid> <val> <val>           val  ::= u | T | F | c<hex> | n<hex> | i[-]<hex> | s[<hex>.<hex>...] |
                                            x[<hexbytes>] | N | S<val> | L[<val>,...]
   model.txt / impl.txt (same shape, compared line by line)
     T <tid> fw=<n|none> min=<hex|none>
     R <enc a> <enc b> <cmp a b> <cmp b a> <separator(lo,hi)|none> <branch_separator(lo,hi)|none> <rt a> <rt b>
   merged.txt (oracle mode):  <cases line> | <impl line> | <implx line>
     implx T:  minv=<val|none|panic> minreenc=<0|1|na>
     implx C:  sv= reenc= cls= csr= bsv= breenc= bcls= bcsr= mina= minb=
   Numbers stay the extracted inductive N / Z / positive / nat: no OCaml int arithmetic on data. *)
open C15_model

(* ---- conversions between text and the extracted inductive numbers *)
let rec pos_of_bits = function          (* bits: least significant first, last one is 1 *)
  | [] -> failwith "pos_of_bits"
  | [true] -> XH
  | b :: r -> if b then XI (pos_of_bits r) else XO (pos_of_bits r)
let n_of_hex (s : string) : n =
  if s = "" then failwith "empty number";
  let bits = ref [] in                  (* least significant first *)
  String.iter (fun c ->
    let d = (match c with
      | '0'..'9' -> Char.code c - 48 | 'a'..'f' -> Char.code c - 87 | 'A'..'F' -> Char.code c - 55
      | _ -> failwith "hex digit") in
    bits := (d land 1 <> 0) :: (d land 2 <> 0) :: (d land 4 <> 0) :: (d land 8 <> 0) :: !bits) s;
  (* !bits is least significant first already (later digits are pushed in front) *)
  let rec strip_top = function false :: r -> strip_top r | l -> l in
  match strip_top (List.rev !bits) with [] -> N0 | l -> Npos (pos_of_bits (List.rev l))
let rec bits_of_pos = function XH -> [true] | XO p -> false :: bits_of_pos p | XI p -> true :: bits_of_pos p
let hex_of_n (x : n) : string =
  match x with N0 -> "0" | Npos p ->
    let bits = Array.of_list (bits_of_pos p) in
    let nb = Array.length bits in
    let nd = (nb + 3) / 4 in
    String.init nd (fun i ->
      let k = nd - 1 - i in
      let v = ref 0 in
      for j = 3 downto 0 do
        let idx = 4 * k + j in
        v := !v * 2 + (if idx < nb && bits.(idx) then 1 else 0) done;
      "0123456789abcdef".[!v])
let byte_tab : n array = Array.init 256 (fun i -> n_of_hex (Printf.sprintf "%x" i))
let rec nat_of_int i = if i <= 0 then O else S (nat_of_int (i - 1))
let rec int_of_nat = function O -> 0 | S m -> 1 + int_of_nat m
let int_of_byte (x : n) : int =
  let s = hex_of_n x in
  if String.length s > 2 then failwith "model produced a non-byte" else int_of_string ("0x" ^ s)
let bytes_of_hex s : n list =
  if s = "-" then [] else begin
    if String.length s mod 2 <> 0 then failwith "odd hex";
    List.init (String.length s / 2) (fun i -> byte_tab.(int_of_string ("0x" ^ String.sub s (2*i) 2)))
  end
let hex_of_bytes (l : n list) =
  if l = [] then "-" else begin
    let b = Buffer.create 64 in
    List.iter (fun x -> Buffer.add_string b (Printf.sprintf "%02x" (int_of_byte x))) l;
    Buffer.contents b
  end
let cmp_s = function Eq -> "eq" | Lt -> "lt" | Gt -> "gt"

(* ---- types *)
let parse_type (s : string) : kty =
  let pos = ref 0 in
  let n = String.length s in
  let peek () = if !pos < n then s.[!pos] else '\000' in
  let expect c = if peek () = c then incr pos else failwith (Printf.sprintf "type: expected %c at %d in %s" c !pos s) in
  let ident () =
    let st = !pos in
    while !pos < n && (match s.[!pos] with 'a'..'z' | '0'..'9' -> true | _ -> false) do incr pos done;
    String.sub s st (!pos - st) in
  let number () =
    let st = !pos in
    while !pos < n && (match s.[!pos] with '0'..'9' -> true | _ -> false) do incr pos done;
    int_of_string (String.sub s st (!pos - st)) in
  let rec ty () =
    let id = ident () in
    match id with
    | "unit" -> TUnit | "bool" -> TBool | "char" -> TChar
    | "u8" -> TU (nat_of_int 1) | "u16" -> TU (nat_of_int 2) | "u32" -> TU (nat_of_int 4)
    | "u64" -> TU (nat_of_int 8) | "u128" -> TU (nat_of_int 16)
    | "i8" -> TI (nat_of_int 1) | "i16" -> TI (nat_of_int 2) | "i32" -> TI (nat_of_int 4)
    | "i64" -> TI (nat_of_int 8) | "i128" -> TI (nat_of_int 16)
    | "str" | "string" -> TStr
    | "bytes" -> TBytes
    | "opt" -> expect '('; let t = ty () in expect ')'; TOpt t
    | "arr" -> expect '('; let k = number () in expect ','; let t = ty () in expect ')'; TArr (nat_of_int k, t)
    | "tup" ->
        expect '(';
        let l = ref [ty ()] in
        while peek () = ',' do incr pos; l := ty () :: !l done;
        expect ')'; TTup (List.rev !l)
    | _ when String.length id > 2 && String.sub id 0 2 = "fb" ->
        TFixedBytes (nat_of_int (int_of_string (String.sub id 2 (String.length id - 2))))
    | _ -> failwith ("unknown type " ^ id) in
  let t = ty () in
  if !pos <> n then failwith ("trailing garbage in type " ^ s);
  t

(* ---- values *)
let parse_val (s : string) : val0 =
  let pos = ref 0 in
  let n = String.length s in
  let peek () = if !pos < n then s.[!pos] else '\000' in
  let expect c = if peek () = c then incr pos else failwith (Printf.sprintf "val: expected %c at %d in %s" c !pos s) in
  let hexrun () =
    let st = !pos in
    while !pos < n && (match s.[!pos] with '0'..'9' | 'a'..'f' -> true | _ -> false) do incr pos done;
    String.sub s st (!pos - st) in
  let rec v () =
    let c = peek () in
    incr pos;
    match c with
    | 'u' -> VUnit
    | 'T' -> VBool true
    | 'F' -> VBool false
    | 'c' -> VChar (n_of_hex (hexrun ()))
    | 'n' -> VU (n_of_hex (hexrun ()))
    | 'i' ->
        let neg = (peek () = '-') in
        if neg then incr pos;
        (match n_of_hex (hexrun ()) with
         | N0 -> VI Z0
         | Npos p -> VI (if neg then Zneg p else Zpos p))
    | 's' ->
        expect '[';
        if peek () = ']' then (incr pos; VStr [])
        else begin
          let l = ref [n_of_hex (hexrun ())] in
          while peek () = '.' do incr pos; l := n_of_hex (hexrun ()) :: !l done;
          expect ']'; VStr (List.rev !l)
        end
    | 'x' -> expect '['; let h = hexrun () in expect ']'; VBytes (bytes_of_hex (if h = "" then "-" else h))
    | 'N' -> VNone
    | 'S' -> VSome (v ())
    | 'L' ->
        expect '[';
        if peek () = ']' then (incr pos; VList [])
        else begin
          let l = ref [v ()] in
          while peek () = ',' do incr pos; l := v () :: !l done;
          expect ']'; VList (List.rev !l)
        end
    | _ -> failwith (Printf.sprintf "val: unexpected %c at %d in %s" c (!pos - 1) s) in
  let r = v () in
  if !pos <> n then failwith ("trailing garbage in value " ^ s);
  r

let fw_s t = match fixed_width t with Some w -> string_of_int (int_of_nat w) | None -> "none"
let optbytes_s = function Some b -> hex_of_bytes b | None -> "none"

(* ---- S2: the model's outputs for a case, all computed from the values *)
let model_line t a b =
  let ea = encode t a and eb = encode t b in
  let c = vcompare t a b in
  let sep, bsep =
    (match c with
     | Eq -> "none", "none"
     | Lt -> hex_of_bytes (separator t ea eb), hex_of_bytes (branch_separator t ea eb)
     | Gt -> hex_of_bytes (separator t eb ea), hex_of_bytes (branch_separator t eb ea)) in
  let rt e v = (match decode t e with Some v' -> v' = v | None -> false) in
  Printf.sprintf "R %s %s %s %s %s %s %b %b" (hex_of_bytes ea) (hex_of_bytes eb)
    (cmp_s (kcompare t ea eb)) (cmp_s (kcompare t eb ea)) sep bsep (rt ea a) (rt eb b)

(* ---- S3: the property on the implementation's outputs.
   The only model functions used are the ones the theorems are about as SPECIFICATION:
   wt (has_type), vcompare (the value order, proved a total order), and length comparisons. *)
let kv (s : string) : (string * string) list =
  List.filter_map (fun f ->
    match String.index_opt f '=' with
    | Some i -> Some (String.sub f 0 i, String.sub f (i + 1) (String.length f - i - 1))
    | None -> None) (String.split_on_char ' ' s)

let hexlen h = if h = "-" then 0 else String.length h / 2

let check_sep fails what t lo hi elo (sep_hex : string) (x : (string * string) list) pre (fw_impl : string) =
  let get k = try List.assoc (pre ^ k) x with Not_found -> "missing" in
  let fail m = fails := (what ^ ": " ^ m) :: !fails in
  if sep_hex = "none" || sep_hex = "panic" then fail ("no separator returned [" ^ sep_hex ^ "]")
  else begin
    (match get "sv" with
     | "panic" -> fail "separator is not decodable by from_bytes (panic)"
     | "missing" -> fail "separator value missing"   (* NB: "na" is a value: the u8 10 *)
     | svs ->
        let sv = parse_val svs in
        if not (wt t sv) then fail ("separator decodes to a value that is not of the type: " ^ svs)
        else begin
          if vcompare t lo sv = Gt then fail ("separator value " ^ svs ^ " sorts below left");
          if vcompare t sv hi <> Lt then fail ("separator value " ^ svs ^ " does not sort below right")
        end);
    if get "reenc" <> "1" then fail "as_bytes(from_bytes(separator)) <> separator (not a valid encoding)";
    (match get "cls" with "lt" | "eq" -> () | o -> fail ("Key::compare(left, separator) is not Less/Equal [" ^ o ^ "]"));
    (match get "csr" with "lt" -> () | o -> fail ("Key::compare(separator, right) is not Less [" ^ o ^ "]"));
    if hexlen sep_hex > hexlen elo then fail "separator longer than left";
    if pre = "b" && fw_impl <> "none" && hexlen sep_hex <> int_of_string fw_impl then
      fail "branch separator of a fixed width type does not have that width"
  end

let () =
  let mode = if Array.length Sys.argv > 1 then Sys.argv.(1) else "model" in
  let types : (string, kty) Hashtbl.t = Hashtbl.create 64 in
  let timpl : (string, string * val0 option) Hashtbl.t = Hashtbl.create 64 in   (* tid -> impl fw, min value *)
  let split3 line =
    (* "<case> | <impl> | <implx>" *)
    match Str.split (Str.regexp_string " | ") line with
    | [a; b; c] -> a, b, c
    | [a; b] -> a, b, ""
    | _ -> failwith ("bad merged line: " ^ line) in
  try
    while true do
      let line = input_line stdin in
      (try
        if mode = "model" then begin
          match String.split_on_char ' ' line with
          | ["T"; tid; te] ->
              let t = parse_type te in
              Hashtbl.replace types tid t;
              if not (wf_ty t) then failwith "type is not well formed";
              Printf.printf "T %s fw=%s min=%s\n" tid (fw_s t) (optbytes_s (min_encoded_key t))
          | ["C"; tid; a; b] ->
              let t = Hashtbl.find types tid in
              print_endline (model_line t (parse_val a) (parse_val b))
          | _ -> print_endline "BADLINE"
        end else begin
          let case, impl, implx = split3 line in
          let x = kv implx in
          match String.split_on_char ' ' case, String.split_on_char ' ' impl with
          | ["T"; tid; te], ("T" :: _ :: rest) ->
              let t = parse_type te in
              Hashtbl.replace types tid t;
              let ik = kv (String.concat " " rest) in
              let fw = (try List.assoc "fw" ik with Not_found -> "missing") in
              let minh = (try List.assoc "min" ik with Not_found -> "missing") in
              let fails = ref [] in
              let mv =
                (match (try List.assoc "minv" x with Not_found -> "missing") with
                 | "none" -> if minh <> "none" then fails := "min_encoded_key value missing" :: !fails; None
                 | "panic" -> fails := "min_encoded_key is not decodable by from_bytes" :: !fails; None
                 | "missing" -> fails := "min_encoded_key value missing" :: !fails; None
                 | s ->
                    let v = parse_val s in
                    if not (wt t v) then (fails := "min_encoded_key decodes to a value that is not of the type" :: !fails; None)
                    else begin
                      if (try List.assoc "minreenc" x with Not_found -> "0") <> "1" then
                        fails := "min_encoded_key is not a canonical encoding" :: !fails;
                      if fw <> "none" && hexlen minh <> int_of_string fw then
                        fails := "min_encoded_key of a fixed width type does not have that width" :: !fails;
                      Some v
                    end) in
              Hashtbl.replace timpl tid (fw, mv);
              if !fails = [] then print_endline "ok" else print_endline ("FAIL " ^ String.concat "; " (List.rev !fails))
          | ["C"; tid; sa; sb], ["R"; ea; eb; cab; cba; sep; bsep; rta; rtb] ->
              let t = Hashtbl.find types tid in
              let fw_impl, mv = (try Hashtbl.find timpl tid with Not_found -> ("none", None)) in
              let a = parse_val sa and b = parse_val sb in
              if not (wt t a && wt t b) then print_endline "BADCASE value not of the type"
              else begin
                let fails = ref [] in
                let fail m = fails := m :: !fails in
                (* every value decodes to what was encoded *)
                if rta <> "true" then fail ("from_bytes(as_bytes(a)) <> a for a=" ^ sa);
                if rtb <> "true" then fail ("from_bytes(as_bytes(b)) <> b for b=" ^ sb);
                (* fixed width types have that width *)
                if fw_impl <> "none" && (hexlen ea <> int_of_string fw_impl || hexlen eb <> int_of_string fw_impl) then
                  fail "encoding of a fixed width type does not have that width";
                (* compare orders encodings exactly as the values order *)
                let c = vcompare t a b in
                if cab <> cmp_s c then fail (Printf.sprintf "Key::compare is not the order of the values [compare(a,b)=%s, values %s]" cab (cmp_s c))
                else if cba <> cmp_s (vcompare t b a) then
                  fail (Printf.sprintf "Key::compare is not the order of the values [compare(b,a)=%s, values %s]" cba (cmp_s (vcompare t b a)));
                (* separators *)
                (match c with
                 | Eq -> ()
                 | Lt -> check_sep fails "separator" t a b ea sep x "" fw_impl;
                         check_sep fails "branch_separator" t a b ea bsep x "b" fw_impl
                 | Gt -> check_sep fails "separator" t b a eb sep x "" fw_impl;
                         check_sep fails "branch_separator" t b a eb bsep x "b" fw_impl);
                (* min_encoded_key sorts at or below every value *)
                (match mv with
                 | Some m ->
                     if vcompare t m a = Gt || vcompare t m b = Gt then fail "min_encoded_key value is not the least value";
                     List.iter (fun k -> match (try List.assoc k x with Not_found -> "missing") with
                       | "lt" | "eq" -> ()
                       | o -> fail ("Key::compare(min_encoded_key, value) is not Less/Equal [" ^ o ^ "]")) ["mina"; "minb"]
                 | None -> ());
                if !fails = [] then print_endline "ok" else print_endline ("FAIL " ^ String.concat "; " (List.rev !fails))
              end
          | _ -> print_endline ("BADLINE " ^ line)
        end
      with
      | End_of_file -> raise End_of_file
      | Failure m -> print_endline ("ERROR " ^ m)
      | Not_found -> print_endline "ERROR unknown type id"
      | Invalid_argument m -> print_endline ("ERROR " ^ m))
    done
  with End_of_file -> ()
