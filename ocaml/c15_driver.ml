(* Line-protocol driver around the extracted C15 model.
   input line:   u64 <hexA> <hexB>      |  bytes <hexbytesA> <hexbytesB>     ("-" = empty byte string)
   output line:  <enc a> <enc b> <cmp> <cmp_rev> <sep|none> <decode-ok a> *)
open C15_model

(* ---- conversions between text and the extracted inductive numbers (no OCaml int arithmetic on data) *)
let rec pos_of_bits = function          (* bits: least significant first, last one is 1 *)
  | [] -> failwith "pos_of_bits"
  | [true] -> XH
  | b :: r -> if b then XI (pos_of_bits r) else XO (pos_of_bits r)
let n_of_hex (s : string) : n =
  let bits = ref [] in                  (* most significant first *)
  String.iter (fun c ->
    let d = int_of_string ("0x" ^ String.make 1 c) in
    bits := !bits @ [d land 8 <> 0; d land 4 <> 0; d land 2 <> 0; d land 1 <> 0]) s;
  let rec strip = function false :: r -> strip r | l -> l in
  match strip !bits with [] -> N0 | l -> Npos (pos_of_bits (List.rev l))
let rec bits_of_pos = function XH -> [true] | XO p -> false :: bits_of_pos p | XI p -> true :: bits_of_pos p
let hex_of_n (x : n) : string =
  match x with N0 -> "0" | Npos p ->
    let bits = Array.of_list (bits_of_pos p) in
    let nb = Array.length bits in
    let nd = (nb + 3) / 4 in
    String.init nd (fun i ->
      let k = nd - 1 - i in
      let v = ref 0 in
      for j = 3 downto 0 do
        let idx = 4 * k + j in
        v := !v * 2 + (if idx < nb && bits.(idx) then 1 else 0) done;
      "0123456789abcdef".[!v])
let n_of_int i = n_of_hex (Printf.sprintf "%x" i)
let int_of_n x = int_of_string ("0x" ^ hex_of_n x)
let bytes_of_hex s : n list =
  if s = "-" then [] else List.init (String.length s / 2) (fun i -> n_of_int (int_of_string ("0x" ^ String.sub s (2*i) 2)))
let hex_of_bytes (l : n list) = if l = [] then "-" else String.concat "" (List.map (fun b -> Printf.sprintf "%02x" (int_of_n b)) l)
let cmp_s = function Eq -> "eq" | Lt -> "lt" | Gt -> "gt"

let () =
  try
    while true do
      let line = input_line stdin in
      match String.split_on_char ' ' line with
      | [ty; a; b] ->
        let t, va, vb = (match ty with
          | "u64" -> TU64, VU64 (n_of_hex a), VU64 (n_of_hex b)
          | "bytes" -> TBytes, VBytes (bytes_of_hex a), VBytes (bytes_of_hex b)
          | _ -> failwith "type") in
        let ea = encode t va and eb = encode t vb in
        let c = kcompare t ea eb in
        let sep = if vcompare t va vb = Lt then hex_of_bytes (separator t ea eb) else "none" in
        let dec = (match decode t ea with Some v -> v = va | None -> false) in
        Printf.printf "%s %s %s %s %s %b\n" (hex_of_bytes ea) (hex_of_bytes eb) (cmp_s c) (cmp_s (kcompare t eb ea)) sep dec
      | _ -> print_endline "BADLINE"
    done
  with End_of_file -> ()
