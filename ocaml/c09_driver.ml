(* Line-protocol driver around the extracted C09 model (coq/Multimap).
   stdin: the case log written by harness/src/bin/c09.rs
     P <id> <ktype> <vtype> <page_size>        start of a program (fresh table); vtype u => value width 8
     i <k> <v> | r <k> <v> <leafbit> | ra <k> <rev> <nf> <nb> | g <k> <rev> <nf> <nb>
     rg <lo> <hi> <rev> <nf> <nb> | len | emp | commit | abort | reopen | rdump | rep <k>
   keys/values: b:<hex> (byte string, "-" = empty) or u:<hex> (integer); bounds: u | i/<kv> | e/<kv>
   argv: <spec_out> <model_out> <model_rep> <tl_out> <tl_rep>   one line per input line in each file.
   tl_* = the extracted TWO-LEVEL model (coq/Multimap/Subtree.v over C04's shape trees, SubtreeInst.v): its outputs, and
   per touched key "I|S <count> L|B <root leaf bytes>" (MultimapTable::verif_collection_info); at every commit / abort the
   replayed state is run through C04's verified checker (kv_tl_check), "INV!" instead of "ok" if it fails.
   stdout: one summary line with measured markers of the two-level replay. *)
open C09_model

let rec pos_of_bits = function
  | [] -> failwith "pos_of_bits"
  | [true] -> XH
  | b :: r -> if b then XI (pos_of_bits r) else XO (pos_of_bits r)
let n_of_hex (s : string) : n =
  let bits = ref [] in
  String.iter (fun c ->
    let d = int_of_string ("0x" ^ String.make 1 c) in
    bits := (d land 1 <> 0) :: (d land 2 <> 0) :: (d land 4 <> 0) :: (d land 8 <> 0) :: !bits) s;
  (* !bits is least significant first *)
  let rec strip_hi l = match l with [] -> [] | _ ->
    let r = List.rev l in
    let rec drop = function false :: t -> drop t | t -> t in
    List.rev (drop r) in
  match strip_hi !bits with [] -> N0 | l -> Npos (pos_of_bits l)
let rec bits_of_pos = function XH -> [true] | XO p -> false :: bits_of_pos p | XI p -> true :: bits_of_pos p
let hex_of_n (x : n) : string =
  match x with N0 -> "0" | Npos p ->
    let bits = Array.of_list (bits_of_pos p) in
    let nb = Array.length bits in
    let nd = (nb + 3) / 4 in
    String.init nd (fun i ->
      let k = nd - 1 - i in
      let v = ref 0 in
      for j = 3 downto 0 do
        let idx = 4 * k + j in
        v := !v * 2 + (if idx < nb && bits.(idx) then 1 else 0) done;
      "0123456789abcdef".[!v])
let n_of_int i = n_of_hex (Printf.sprintf "%x" i)
let int_of_n x = int_of_string ("0x" ^ hex_of_n x)
let byte_tbl = Array.init 256 n_of_int
let bytes_of_hex s : n list =
  if s = "-" then [] else List.init (String.length s / 2) (fun i -> byte_tbl.(int_of_string ("0x" ^ String.sub s (2*i) 2)))
let hex_of_bytes (l : n list) =
  if l = [] then "-" else begin
    let b = Buffer.create 64 in
    List.iter (fun x -> Buffer.add_string b (Printf.sprintf "%02x" (int_of_n x))) l;
    Buffer.contents b end

let kv_of_string s =
  match s.[0] with
  | 'b' -> KB (bytes_of_hex (String.sub s 2 (String.length s - 2)))
  | 'u' -> KU (n_of_hex (String.sub s 2 (String.length s - 2)))
  | _ -> failwith ("kv " ^ s)
let string_of_kv = function KB b -> "b:" ^ hex_of_bytes b | KU n -> "u:" ^ hex_of_n n
let bound_of_string s =
  if s = "u" then BUnb
  else match s.[0] with
    | 'i' -> BIncl (kv_of_string (String.sub s 2 (String.length s - 2)))
    | 'e' -> BExcl (kv_of_string (String.sub s 2 (String.length s - 2)))
    | _ -> failwith ("bound " ^ s)
let bool_of s = (s = "1")

let vals_s l = String.concat "," (List.map string_of_kv l)
let entry_s (k, (vs, n)) = Printf.sprintf "%s=%s:[%s]" (string_of_kv k) (hex_of_n n) (vals_s vs)
let out_s = function
  | OBool b -> if b then "t" else "f"
  | OVals (f, b, n) -> Printf.sprintf "n=%s front=[%s] back=[%s]" (hex_of_n n) (vals_s f) (vals_s b)
  | ORange (f, b) -> Printf.sprintf "front={%s} back={%s}" (String.concat " " (List.map entry_s f)) (String.concat " " (List.map entry_s b))
  | ONum n -> hex_of_n n
  | OUnit -> "ok"
let rep_s = function
  | None -> "absent"
  | Some (sub, n) -> Printf.sprintf "%s %s" (if sub then "S" else "I") (hex_of_n n)
let rep2_s = function
  | None -> "absent"
  | Some (((sub, n), leaf), len) ->
    Printf.sprintf "%s %s %s %s" (if sub then "S" else "I") (hex_of_n n) (if leaf then "L" else "B") (hex_of_n len)
let rec int_of_nat = function O -> 0 | S m -> 1 + int_of_nat m

let () =
  let spec_oc = open_out Sys.argv.(1) and model_oc = open_out Sys.argv.(2) and rep_oc = open_out Sys.argv.(3) in
  let tlo_oc = open_out Sys.argv.(4) and tlr_oc = open_out Sys.argv.(5) in
  let spec = ref s_empty and model = ref m_empty and tl = ref kv_tl_empty in
  let cfg = ref { page_size = n_of_int 4096; vwidth = None } in
  (* parameters of the two-level instance: page size, K fixed width?, K separator mode, V fixed width?, V separator mode *)
  let ps = ref (n_of_int 4096) and kfixed = ref false and kmode = ref (n_of_int 1) and vfixed = ref false and vmode = ref (n_of_int 1) in
  let max_height = ref 0 and branch_reps = ref 0 and sub_reps = ref 0 and checks = ref 0 and tl_steps = ref 0 in
  let emit2 d e = output_string tlo_oc (d ^ "\n"); output_string tlr_oc (e ^ "\n") in
  let emit a b c = output_string spec_oc (a ^ "\n"); output_string model_oc (b ^ "\n"); output_string rep_oc (c ^ "\n") in
  let emit5 a b c d e = emit a b c; emit2 d e in
  let tl_rep k =
    let r = kv_tl_rep !ps !kfixed !kmode !vfixed !vmode k !tl in
    (match r with
     | Some (((true, _), leaf), _) ->
       incr sub_reps; if not leaf then incr branch_reps;
       (match kv_sub_height k !tl with Some h -> let h = int_of_nat h in if h > !max_height then max_height := h | None -> ())
     | _ -> ());
    rep2_s r in
  let step ?(key = None) ?(check = false) o =
    let (s', so) = spec_step kv_cmp kv_cmp o !spec in
    let (m', mo) = model_step kv_cmp kv_cmp kv_len !cfg o !model in
    let (t', tout) = kv_tl_step !ps !kfixed !kmode !vfixed !vmode o !tl in
    spec := s'; model := m'; tl := t'; incr tl_steps;
    let rep = match key with None -> "-" | Some k -> rep_s (rep_of kv_cmp k m'.m_cur) in
    emit (out_s so) (out_s mo) rep;
    let touts = if check then (incr checks; if kv_tl_check t' then out_s tout else "INV!") else out_s tout in
    emit2 touts (match key with None -> "-" | Some k -> tl_rep k) in
  (try
    while true do
      let line = input_line stdin in
      match String.split_on_char ' ' line with
      | ["P"; _; kt; vt; psz] ->
        spec := s_empty; model := m_empty; tl := kv_tl_empty;
        cfg := { page_size = n_of_int (int_of_string psz); vwidth = (if vt = "u" then Some (n_of_int 8) else None) };
        ps := n_of_int (int_of_string psz);
        kfixed := (kt = "u"); kmode := n_of_int (if kt = "u" then 0 else if kt = "s" then 2 else 1);
        vfixed := (vt = "u"); vmode := n_of_int (if vt = "u" then 0 else if vt = "s" then 2 else 1);
        emit5 "P" "P" "P" "P" "P"
      | ["i"; k; v] -> let k = kv_of_string k in step ~key:(Some k) (OpInsert (k, kv_of_string v))
      | ["r"; k; v; leaf] -> let k = kv_of_string k in step ~key:(Some k) (OpRemove (k, kv_of_string v, bool_of leaf))
      | ["ra"; k; rev; nf; nb] ->
        let k = kv_of_string k in step ~key:(Some k) (OpRemoveAll (k, bool_of rev, n_of_int (int_of_string nf), n_of_int (int_of_string nb)))
      | ["g"; k; rev; nf; nb] ->
        let k = kv_of_string k in step (OpGet (k, bool_of rev, n_of_int (int_of_string nf), n_of_int (int_of_string nb)))
      | ["rg"; lo; hi; rev; nf; nb] ->
        step (OpRange (bound_of_string lo, bound_of_string hi, bool_of rev, n_of_int (int_of_string nf), n_of_int (int_of_string nb)))
      | ["len"] -> step OpLen
      | ["emp"] -> step OpIsEmpty
      | ["commit"] -> step ~check:true OpCommit
      | ["abort"] -> step ~check:true OpAbort
      | ["reopen"] -> emit5 "ok" "ok" "-" "ok" "-"
      | ["integrity"] -> emit5 "Ok(true)" "Ok(true)" "-" "Ok(true)" "-"
      | ["rep"; k] -> let k = kv_of_string k in emit5 "-" "-" (rep_s (rep_of kv_cmp k !model.m_cur)) "-" (tl_rep k)
      | ["rdump"] ->
        (* contents and len of the COMMITTED state, as a read transaction sees them *)
        let d (m : (kv, kv) smap) =
          let l = List.map (fun (k, vs) -> (k, (vs, nlen vs))) m in
          Printf.sprintf "len=%s {%s}" (hex_of_n (s_len m)) (String.concat " " (List.map entry_s l)) in
        emit5 (d !spec.s_committed) (d (abs_state !model).s_committed) "-" (d (kv_tl_abs !tl).s_committed) "-"
      | _ -> emit5 "BADLINE" "BADLINE" "BADLINE" "BADLINE" "BADLINE"
    done
  with End_of_file -> ());
  Printf.printf "{\"tl_steps\":%d,\"tl_subtree_reps\":%d,\"tl_branch_root_reps\":%d,\"tl_max_subtree_height\":%d,\"tl_checker_runs\":%d}\n"
    !tl_steps !sub_reps !branch_reps !max_height !checks;
  close_out spec_oc; close_out model_oc; close_out rep_oc; close_out tlo_oc; close_out tlr_oc
