(* Line-protocol driver around the extracted C08 model (I/O latch + session model).
     G <ev>...   ev = E<kind><io_failed><closed> (wrapper entry, flags on entry; kind 0 len 1 read 2 write
                      3 write_best_effort 4 set_len 5 sync_data 6 close 7 drop)
                    | B<op><ok> (call that reached the backend; op 0 len 1 read 2 write 3 set_len 4 sync 5 close)
         -> 1            the log is a run of the latch model
          | 0 <index>    first log event the model cannot produce
     D <letters> I = a latched backend failure, C/c = commit returned Ok/Err, S = shutdown (Drop for Database)
         -> <recovery_required left in the file: 0|1>                                              *)
open C08_model

let rec pos_of_int i = if i = 1 then XH else if i land 1 = 1 then XI (pos_of_int (i lsr 1)) else XO (pos_of_int (i lsr 1))
let n_of_small i = if i = 0 then N0 else Npos (pos_of_int i)       (* only for single digits of the protocol *)
let rec int_of_pos = function XH -> 1 | XO p -> 2 * int_of_pos p | XI p -> 2 * int_of_pos p + 1
let int_of_n = function N0 -> 0 | Npos p -> int_of_pos p            (* only for printing an index *)
let digit c = Char.code c - Char.code '0'

let parse_ev (s : string) : logev =
  match s.[0] with
  | 'E' -> LEnter (n_of_small (digit s.[1]), s.[2] = '1', s.[3] = '1')
  | 'B' -> LBackend (n_of_small (digit s.[1]), s.[2] = '1')
  | _ -> failwith ("event " ^ s)

let () =
  try
    while true do
      let line = input_line stdin in
      (match List.filter (fun s -> s <> "") (String.split_on_char ' ' line) with
      | "G" :: evs ->
        let l = List.map parse_ev evs in
        (match log_check l_init l N0 with
         | None -> print_endline "1"
         | Some i -> Printf.printf "0 %d\n" (int_of_n i))
      | ["D"; letters] ->
        let evs = List.map (function
          | 'I' -> DIoFailure | 'C' -> DCommit true | 'c' -> DCommit false | 'S' -> DShutdown true
          | _ -> failwith "letter") (List.init (String.length letters) (String.get letters)) in
        let s = drun d_open evs in
        print_endline (if s.d_recovery_on_disk then "1" else "0")
      | ["D"] -> print_endline "1"
      | _ -> print_endline "BADLINE")
    done
  with End_of_file -> ()
