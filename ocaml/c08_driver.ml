(* Line-protocol driver around the extracted C08 model (I/O latch + session model + fault-aware commit model).
     G <ev>...   ev = E<kind><io_failed><closed> (wrapper entry, flags on entry; kind 0 len 1 read 2 write
                      3 write_best_effort 4 set_len 5 sync_data 6 close 7 drop)
                    | B<op><ok> (call that reached the backend; op 0 len 1 read 2 write 3 set_len 4 sync 5 close)
         -> 1            the log is a run of the latch model
          | 0 <index>    first log event the model cannot produce
     D <letters> I = a latched backend failure, C/c = commit returned Ok/Err, S = shutdown (Drop for Database)
         -> <recovery_required left in the file: 0|1>

     T <tag> <hdr hex 320> <len> { G <kind> <call>... E }...
         the FAULT-FREE backend-call stream of one history (from a point where the header in memory is the header
         on disk: after creation, after check_integrity) cut into protocol-level segments; kind = txn1 | txn2 | nd |
         abort | gap | compact | close | open_<p>_<vq> (from the history descriptor, not from the stream);
         call = Q (read / len) | H<hex 320> (header write) | W<off>:<len> | L<n> (set_len) | S (sync_data).
         Every segment is fed to the extracted protocol model (Storage/Protocol.v run_step / recovery_run, abstract
         inputs read off the stream exactly as ocaml/c01_driver.ml does) and the operations the model emits are
         compared with the real ones per sync window (header writes with all 320 bytes and set_len in order, page
         writes as a set).
         -> T ok | T DIFF seg <i> <kind>: <what> | model=<..> | real=<..>     (later segments of the trace: broken)
     F <tag> <seg> <pos> <permanent 0|1> <keep> <be 0|1> <res ok|err|none|panic> <hdr hex|?> <len|?> <pending>...
         a faulted run of that history: the call at position <pos> of segment <seg> failed (a failing write stored
         <keep> bytes; <be>: the latch log says it was best-effort writeback); <res> = result class of the API call
         in progress; header and length of the image at the last sync_data that succeeded, and the operations the
         backend accepted since (W<off>:<len> | L<n>).  The extracted step_f / recovery_f is run on the model's step
         that issues the corresponding call (same sync window; the same operation, or the window's read/len calls)
         with the oracle fail_at, and must predict
           (i)  the result class (Err iff a required call fails; `none` is echoed: Drop returns nothing),
           (ii) the cut: summary header and length = those of the surviving durable image, and the accepted
                operations are a weakening (sub-multiset, a write possibly shortened) of the operations of the
                fault-free sync window the model names -- i.e. the surviving bytes are a crash image of that window.
         -> <ok|err|none> hdr=<ok|DIFF..|?> len=<ok|DIFF|?> sub=<ok|DIFF..|?>   |   BROKEN <why>                    *)
open C08_model

let rec pos_of_int i = if i = 1 then XH else if i land 1 = 1 then XI (pos_of_int (i lsr 1)) else XO (pos_of_int (i lsr 1))
let n_of_small i = if i = 0 then N0 else Npos (pos_of_int i)       (* text -> N through OCaml's int as a converter (offsets < 2^62) *)
let rec int_of_pos = function XH -> 1 | XO p -> 2 * int_of_pos p | XI p -> 2 * int_of_pos p + 1
let int_of_n = function N0 -> 0 | Npos p -> int_of_pos p            (* only for printing / comparing lengths *)
let digit c = Char.code c - Char.code '0'
let n_of_dec s = n_of_small (int_of_string s)
let rec nat_of_int i = if i <= 0 then O else S (nat_of_int (i - 1))
let byte_tab : n array = Array.init 256 n_of_small
let bytes_of_hex s : n list =
  if String.length s mod 2 <> 0 then failwith "odd hex";
  List.init (String.length s / 2) (fun i -> byte_tab.(int_of_string ("0x" ^ String.sub s (2 * i) 2)))
let hex_of_bytes (b : n list) : string = String.concat "" (List.map (fun x -> Printf.sprintf "%02x" (int_of_n x)) b)

let parse_ev (s : string) : logev =
  match s.[0] with
  | 'E' -> LEnter (n_of_small (digit s.[1]), s.[2] = '1', s.[3] = '1')
  | 'B' -> LBackend (n_of_small (digit s.[1]), s.[2] = '1')
  | _ -> failwith ("event " ^ s)

(* ---------------------------------------------------------------- protocol replay (as ocaml/c01_driver.ml) *)
type rcall = RQ | RH of n list | RW of n * n | RL of n | RS

let parse_call (s : string) : rcall =
  match s.[0] with
  | 'Q' -> RQ
  | 'S' -> RS
  | 'H' -> RH (bytes_of_hex (String.sub s 1 (String.length s - 1)))
  | 'L' -> RL (n_of_dec (String.sub s 1 (String.length s - 1)))
  | 'W' -> (match String.split_on_char ':' (String.sub s 1 (String.length s - 1)) with
            | [o; l] -> RW (n_of_dec o, n_of_dec l)
            | _ -> failwith ("call " ^ s))
  | _ -> failwith ("call " ^ s)

type awin = { nonpage : string list; pageset : (int * int) list; synced : bool }

let abs_stream (ops : rcall list) : awin list =
  let fin np pg synced = { nonpage = List.rev np; pageset = List.sort compare pg; synced } in
  let rec go np pg acc = function
    | [] -> List.rev (if np = [] && pg = [] then acc else fin np pg false :: acc)
    | RS :: r -> go [] [] (fin np pg true :: acc) r
    | RQ :: r -> go np pg acc r
    | RH h :: r -> go (("H:" ^ hex_of_bytes h) :: np) pg acc r
    | RL x :: r -> go (("L:" ^ string_of_int (int_of_n x)) :: np) pg acc r
    | RW (o, l) :: r -> go np ((int_of_n o, int_of_n l) :: pg) acc r in
  go [] [] [] ops

(* a page write is handed to the model as (offset, [length]): the model is parametric in page contents *)
let rcall_of_op (o : op) : rcall =
  match o with
  | Sync -> RS
  | SetLen x -> RL x
  | Write (off, data) ->
      if off = N0 && List.length data = 320 then RH data
      else (match data with [l] -> RW (off, l) | _ -> RW (off, n_of_small (List.length data)))

let show_stream (ws : awin list) : string =
  let god h = if String.length h >= 22 then String.sub h 20 2 else "??" in
  String.concat " " (List.map (fun w ->
    String.concat "," (List.map (fun s -> if String.length s > 2 && String.sub s 0 2 = "H:" then "H" ^ god s else s) w.nonpage)
    ^ (if w.pageset = [] then "" else Printf.sprintf "+%dp" (List.length w.pageset))
    ^ (if w.synced then ";S" else ";-")) ws)

let first_stream_diff (m : awin list) (r : awin list) : string option =
  let rec go i m r = match m, r with
    | [], [] -> None
    | [], _ -> Some (Printf.sprintf "the real stream has %d more window(s) from window %d on" (List.length r) i)
    | _, [] -> Some (Printf.sprintf "the model emits %d more window(s) from window %d on" (List.length m) i)
    | a :: m', b :: r' ->
        if a.synced <> b.synced then Some (Printf.sprintf "window %d: sync_data %s" i (if a.synced then "missing in the real stream" else "only in the real stream"))
        else if a.nonpage <> b.nonpage then begin
          let rec fd j x y = match x, y with
            | [], [] -> "?"
            | [], s :: _ -> Printf.sprintf "extra real op %d: %s" j (String.sub s 0 (min 24 (String.length s)))
            | s :: _, [] -> Printf.sprintf "missing real op %d: %s" j (String.sub s 0 (min 24 (String.length s)))
            | s :: x', t :: y' ->
                if s = t then fd (j + 1) x' y'
                else if String.length s = String.length t && String.length s > 600 then begin
                  let k = ref 0 in
                  while !k < String.length s && s.[!k] = t.[!k] do incr k done;
                  Printf.sprintf "header write %d differs at byte %d (model %s real %s)" j ((!k - 2) / 2)
                    (String.sub s (2 + 2 * ((!k - 2) / 2)) 2) (String.sub t (2 + 2 * ((!k - 2) / 2)) 2)
                end else Printf.sprintf "op %d: model %s real %s" j (String.sub s 0 (min 24 (String.length s))) (String.sub t 0 (min 24 (String.length t))) in
          Some (Printf.sprintf "window %d: %s" i (fd 0 a.nonpage b.nonpage))
        end
        else if a.pageset <> b.pageset then Some (Printf.sprintf "window %d: page writes differ (model %d, real %d)" i (List.length a.pageset) (List.length b.pageset))
        else go (i + 1) m' r' in
  go 0 m r

let sub_bytes (l : n list) (off : int) (len : int) : n list =
  let a = Array.of_list l in
  if Array.length a < off + len then [] else Array.to_list (Array.sub a off len)
let hdr_layout (h : n list) = sub_bytes h 24 8
let hdr_slot (h : n list) (k : bool) = sub_bytes h (if k then 192 else 64) 128
let hdr_god (h : n list) : n = match sub_bytes h 9 1 with [g] -> g | _ -> N0
let prim_of_god (g : n) : bool = flag g (n_of_small 1)

let cut_windows (ops : rcall list) : rcall list list * rcall list =
  let rec go cur acc = function
    | [] -> (List.rev acc, List.rev cur)
    | RS :: r -> go [] (List.rev cur :: acc) r
    | RQ :: r -> go cur acc r
    | o :: r -> go (o :: cur) acc r in
  go [] [] ops

(* one model step of a segment: a protocol step from a state, or the recovery run of an open *)
type mstep = MStep of pst * pstep | MRec of dsum * roracle * acc

let mstep_ops = function
  | MStep (st, s) -> (run_step st s).a_ops
  | MRec (_, _, a) -> a.a_ops

(* feed one segment to the model: the state afterwards, the steps in order, a note if the segment is not one the
   model can follow *)
let feed_segment (st : pst) (kind : string) (real : rcall list) (later_layout : n list option) : pst * mstep list * string option =
  let pages_of w = List.filter_map (function RW (o, l) -> Some (o, [l]) | _ -> None) w in
  let hdrs_of w = List.filter_map (function RH h -> Some h | _ -> None) w in
  let all_hdrs = hdrs_of real in
  match String.split_on_char '_' kind with
  | "open" :: p :: vq :: _ ->
      let d0 = st.p_d in
      let d = { d_hdr = d0.d_hdr; d_len = cur_len st; d_p = (p = "1"); d_rp = []; d_vq = (vq = "1"); d_rq = None } in
      let lay = (match all_hdrs with h :: _ -> hdr_layout h | [] -> layout_at (hget d0.d_hdr)) in
      let q = (match List.rev all_hdrs with h :: _ -> hdr_slot h (prim_of_god (hdr_god h)) | [] -> []) in
      let o = { ro_lay = lay; ro_quick = List.length all_hdrs <= 2; ro_q = q } in
      (match recovery_run d o with
       | None -> (st, [], Some "the model's open fails (recovery_run = None) but the real crate opened the image")
       | Some a -> (a.a_st, [MRec (d, o, a)], None))
  | k :: _ ->
      let (wins, tail) = cut_windows real in
      let wins_a = Array.of_list wins in
      let nw = Array.length wins_a in
      let st = ref st in
      let steps = ref [] in
      let note = ref None in
      let commits = ref 0 in
      let skip_hdr_windows = ref 0 in
      let step s = steps := MStep (!st, s) :: !steps; st := (run_step !st s).a_st in
      let next_layout_from i =
        let rec find j = if j >= nw then (match hdrs_of tail with h :: _ -> Some (hdr_layout h) | [] -> later_layout)
          else match hdrs_of wins_a.(j) with h :: _ -> Some (hdr_layout h) | [] -> find (j + 1) in
        match find i with Some l -> l | None -> (!st).p_mem.hm_layout in
      let first_op_after i = if i + 1 < nw then (match wins_a.(i + 1) with o :: _ -> Some o | [] -> Some RS)
                             else (match tail with o :: _ -> Some o | [] -> None) in
      let feed_plain i w =
        let pg = pages_of w in
        if pg <> [] then step (PEvict pg);
        List.iter (function
          | RL x when N.ltb (cur_len !st) x -> step (PGrow (x, next_layout_from i))
          | _ -> ()) w in
      for i = 0 to nw - 1 do
        let w = wins_a.(i) in
        match hdrs_of w with
        | [] -> feed_plain i w
        | h :: _ ->
            if !skip_hdr_windows > 0 then begin
              decr skip_hdr_windows;
              let pg = pages_of w in if pg <> [] then step (PEvict pg)
            end else begin
              let pg = pages_of w in
              if pg <> [] then step (PEvict pg);
              incr commits;
              let m = (!st).p_mem in
              let two = (match k with
                | "txn1" -> false | "txn2" | "close" -> true
                | _ -> N.eqb (hdr_god h) (hm_god m)) in
              let q = hdr_slot h (not m.hm_prim) in
              let last = if two then i + 1 else i in
              let shrink = (match first_op_after last with
                | Some (RL x) when N.ltb x (cur_len !st) -> Some (x, hdr_layout h)
                | _ -> None) in
              if two then skip_hdr_windows := 1;
              if k = "close" then begin
                skip_hdr_windows := 3;
                step (PClose (q, [], [], shrink))
              end else step (PCommit (two, q, [], [], shrink))
            end
      done;
      (let pg = pages_of tail in if pg <> [] then step (PEvict pg));
      (match k with
       | "txn1" | "txn2" | "close" -> if !commits <> 1 then note := Some (Printf.sprintf "%d commits in a segment that must hold exactly one" !commits)
       | "nd" | "abort" | "gap" -> if !commits <> 0 then note := Some "header writes outside a durable commit"
       | _ -> ());
      (!st, List.rev !steps, !note)
  | [] -> (st, [], Some "empty segment kind")

(* ---------------------------------------------------------------- traces *)
type seg = { kind : string; real : rcall array; st_before : pst; steps : mstep list; seg_ok : bool }
let traces : (string, seg array) Hashtbl.t = Hashtbl.create 64

let run_trace (toks : string list) : string =
  match toks with
  | tag :: hdr :: len :: rest ->
      let hdr = bytes_of_hex hdr and len0 = n_of_dec len in
      (* operations accepted since the last sync_data before the trace starts (tokens before the first G) *)
      let rec split_pre acc = function
        | "G" :: _ as r -> (List.rev acc, r)
        | t :: r -> split_pre (parse_call t :: acc) r
        | [] -> (List.rev acc, []) in
      let (pre_ops, rest) = split_pre [] rest in
      let pre_win = List.filter_map (function
        | RW (o, l) -> Some (Write (o, [l])) | RL x -> Some (SetLen x) | _ -> None) pre_ops in
      (* split into segments *)
      let segs = ref [] in
      let cur_kind = ref "" and cur = ref [] in
      List.iter (fun t ->
        if t = "G" then () else
        if t = "E" then (segs := (!cur_kind, List.rev !cur) :: !segs; cur_kind := ""; cur := [])
        else if !cur_kind = "" then cur_kind := t
        else cur := parse_call t :: !cur) rest;
      let segs = Array.of_list (List.rev !segs) in
      let m0 = parse_hdr hdr in
      let d0 = { d_hdr = hdr; d_len = len0; d_p = m0.hm_prim; d_rp = []; d_vq = true; d_rq = None } in
      let st = ref { p_d = d0; p_win = pre_win; p_mem = m0; p_rfs = false; p_open = m0.hm_rr } in
      let broken = ref None in
      let out = Array.mapi (fun i (kind, real) ->
        match !broken with
        | Some _ -> { kind; real = Array.of_list real; st_before = !st; steps = []; seg_ok = false }
        | None ->
            let later = (let r = ref None in
              for j = Array.length segs - 1 downto i + 1 do
                (match List.filter_map (function RH h -> Some h | _ -> None) (Stdlib.snd segs.(j)) with h :: _ -> r := Some (hdr_layout h) | [] -> ())
              done; !r) in
            let st0 = !st in
            let (st', steps, note) = (try feed_segment st0 kind real later with Failure e -> (st0, [], Some ("driver: " ^ e))) in
            let mops = List.concat_map mstep_ops steps in
            let ms = abs_stream (List.map rcall_of_op mops) and rs = abs_stream real in
            let verdict = (match note with Some w -> Some w | None -> first_stream_diff ms rs) in
            (match verdict with
             | None -> ()
             | Some w -> broken := Some (Printf.sprintf "seg %d %s: %s | model=%s | real=%s" i kind w (show_stream ms) (show_stream rs)));
            st := st';
            { kind; real = Array.of_list real; st_before = st0; steps; seg_ok = (verdict = None) }) segs in
      Hashtbl.replace traces tag out;
      (match !broken with None -> "T ok" | Some w -> "T DIFF " ^ w)
  | _ -> "BADLINE"

(* ---------------------------------------------------------------- faulted runs *)
let op_matches (c : rcall) (o : op) : bool =
  match c, rcall_of_op o with
  | RH _, RH _ -> true
  | RW (a, l), RW (b, m) -> a = b && l = m
  | RL a, RL b -> a = b
  | RS, RS -> true
  | _, _ -> false

(* the calls of a model step, given the number of read/len calls of each sync window of the segment that are still
   to be placed (they go in front of the first operation the model issues in that window) *)
let queries_for (ops : op list) (win0 : int) (nq : int array) (placed : bool array) : int list * int =
  let w = ref win0 in
  let qs = List.map (fun o ->
    let q = if !w < Array.length nq && not placed.(!w) then (placed.(!w) <- true; nq.(!w)) else 0 in
    (match o with Sync -> incr w | _ -> ());
    q) ops in
  (qs, !w)

let count_some (cs : call list) (upto : int) : int =
  let rec go i acc = function
    | [] -> acc
    | (_, c) :: r -> if i >= upto then acc else go (i + 1) (match c with Some _ -> acc + 1 | None -> acc) r in
  go 0 0 cs

type pend = PW of int * int | PL of int

let parse_pend (s : string) : pend =
  match s.[0] with
  | 'L' -> PL (int_of_string (String.sub s 1 (String.length s - 1)))
  | 'W' -> (match String.split_on_char ':' (String.sub s 1 (String.length s - 1)) with
            | [o; l] -> PW (int_of_string o, int_of_string l)
            | _ -> failwith ("pending " ^ s))
  | _ -> failwith ("pending " ^ s)

(* the accepted operations are a weakening of the window's operations: each matches a distinct operation of the
   window, a write possibly shortened *)
let sub_check (pending : pend list) (wops : op list) : string =
  let avail = ref (List.map (fun o -> match rcall_of_op o with
    | RH _ -> Some (PW (0, 320)) | RW (o, l) -> Some (PW (int_of_n o, int_of_n l)) | RL x -> Some (PL (int_of_n x)) | _ -> None) wops
    |> List.filter_map (fun x -> x)) in
  let take p =
    let rec go acc = function
      | [] -> None
      | a :: r ->
          let ok = (match p, a with
            | PW (o, l), PW (o', l') -> o = o' && l <= l'
            | PL x, PL y -> x = y
            | _, _ -> false) in
          if ok then Some (List.rev_append acc r) else go (a :: acc) r in
    go [] !avail in
  let bad = List.filter (fun p -> match take p with Some r -> avail := r; false | None -> true) pending in
  match bad with
  | [] -> "ok"
  | p :: _ -> Printf.sprintf "DIFF(%s-not-in-the-model's-window-of-%d-ops)"
                (match p with PW (o, l) -> Printf.sprintf "W%d:%d" o l | PL x -> Printf.sprintf "L%d" x) (List.length wops)

(* the operations of the tw-th sync window of the model's fault-free stream, counted from the start of segment si
   (the window that is open when the segment starts included; it may end in a later segment) *)
let model_window (segs : seg array) (si : int) (tw : int) : op list =
  let buf = ref (List.rev segs.(si).st_before.p_win) and w = ref 0 and res = ref None in
  let feed o =
    if !res = None then
      (match o with
       | Sync -> if !w = tw then res := Some (List.rev !buf) else (incr w; buf := [])
       | _ -> buf := o :: !buf) in
  let i = ref si in
  while !res = None && !i < Array.length segs do
    List.iter feed (List.concat_map mstep_ops segs.(!i).steps); incr i
  done;
  match !res with Some l -> l | None -> if !w = tw then List.rev !buf else []

let run_fault (toks : string list) : string =
  match toks with
  | tag :: seg :: pos :: perm :: keep :: be :: res :: hdr :: len :: pending ->
      (match Hashtbl.find_opt traces tag with
       | None -> "BROKEN no trace " ^ tag
       | Some segs ->
           let si = int_of_string seg and pos = int_of_string pos in
           if si >= Array.length segs then "BROKEN no such segment" else
           let sg = segs.(si) in
           if not sg.seg_ok then "BROKEN the model does not follow the fault-free stream of this trace (see its T line)" else
           if pos >= Array.length sg.real then "BROKEN position outside the segment" else begin
             let perm = (perm = "1") and be = (be = "1") and keep = nat_of_int (int_of_string keep) in
             (* sync windows of the real segment: index of the window of every call, read/len calls per window *)
             let nwin = 1 + Array.fold_left (fun a c -> if c = RS then a + 1 else a) 0 sg.real in
             let nq = Array.make nwin 0 in
             let win_of = Array.make (Array.length sg.real) 0 in
             let w = ref 0 in
             Array.iteri (fun i c -> win_of.(i) <- !w; (match c with RQ -> nq.(!w) <- nq.(!w) + 1 | RS -> incr w | _ -> ())) sg.real;
             let target = sg.real.(pos) and tw = win_of.(pos) in
             let placed = Array.make nwin false in
             (* the steps of the segment, and a last empty eviction that hosts the read/len calls of windows in which
                the model issues nothing *)
             let last_st = (match List.rev sg.steps with
               | MStep (st, s) :: _ -> (run_step st s).a_st | MRec (_, _, a) :: _ -> a.a_st | [] -> sg.st_before) in
             let steps = sg.steps @ [MStep (last_st, PEvict [])] in
             let win = ref 0 in
             let result = ref None in
             List.iteri (fun idx ms ->
               if !result = None then begin
                 let ops = mstep_ops ms in
                 let is_last = (idx = List.length steps - 1) in
                 let (qs0, wend) = queries_for ops !win nq placed in
                 (* trailing: every window not yet hosted, if this is the last step *)
                 let trailing = if is_last then (let t = ref 0 in Array.iteri (fun j p -> if not p then (t := !t + nq.(j); placed.(j) <- true)) placed; !t) else 0 in
                 let qs = List.map nat_of_int (qs0 @ [trailing]) in
                 let calls : call list = (match ms with
                   | MStep (st, s) -> step_calls st { rq_step = s; rq_be = be; rq_qs = qs }
                   | MRec (_, _, a) -> recovery_calls a qs) in
                 (* find the call: same window, same operation / a read-len call of that window *)
                 let cw = ref !win in
                 let found = ref None in
                 List.iteri (fun ci (_, c) ->
                   if !found = None then begin
                     (match c, target with
                      | None, RQ -> if !cw = tw || (is_last && !cw <= tw) then found := Some ci
                      | Some o, t when t <> RQ -> if !cw = tw && op_matches t o then found := Some ci
                      | _, _ -> ());
                     (match c with Some Sync -> incr cw | _ -> ())
                   end) calls;
                 (match !found with
                  | None -> ()
                  | Some ci ->
                      let fo = fail_at (nat_of_int ci) perm keep in
                      (match ms with
                       | MStep (st, s) ->
                           let (s', ok) = step_f (f_init st) { rq_step = s; rq_be = be; rq_qs = qs } fo in
                           let a = run_step st s in
                           result := Some (s', ok, a, List.length st.p_win + count_some calls ci, (is_evict s && be))
                       | MRec (d, o, a) ->
                           (match recovery_f d o qs fo with
                            | Some (s', ok) -> result := Some (s', ok, a, count_some calls ci, false)
                            | None -> ())));
                 win := wend
               end) steps;
             match !result with
             | None -> "BROKEN the model issues no such call in sync window " ^ string_of_int tw ^ " of the segment"
             | Some (s', ok, a, napplied, be_step) ->
                 let pred = if res = "none" then "none" else if ok then "ok" else "err" in
                 if hdr = "?" || ok then Printf.sprintf "%s hdr=? len=? sub=?" pred
                 else begin
                   let real_hdr = bytes_of_hex hdr in
                   let mh = s'.f_st.p_d.d_hdr in
                   let hv = if bytes_eqb mh real_hdr then "ok" else begin
                     let ma = Array.of_list mh and ra = Array.of_list real_hdr in
                     let k = ref 0 in
                     while !k < Array.length ma && !k < Array.length ra && ma.(!k) = ra.(!k) do incr k done;
                     Printf.sprintf "DIFF(byte-%d)" !k end in
                   let lv = if int_of_n s'.f_st.p_d.d_len = int_of_string len then "ok"
                            else Printf.sprintf "DIFF(model-%d)" (int_of_n s'.f_st.p_d.d_len) in
                   ignore be_step; ignore a; ignore napplied;
                   (* the accepted operations against the WHOLE fault-free sync window of the model (its steps issue
                      the window's operations in another order than the write buffer does: C01 S2 iii compares sets) *)
                   let sv = sub_check (List.map parse_pend pending) (model_window segs si tw) in
                   Printf.sprintf "%s hdr=%s len=%s sub=%s" pred hv lv sv
                 end
           end)
  | _ -> "BADLINE"

let () =
  try
    while true do
      let line = input_line stdin in
      (match List.filter (fun s -> s <> "") (String.split_on_char ' ' line) with
      | "G" :: evs ->
        let l = List.map parse_ev evs in
        (match log_check l_init l N0 with
         | None -> print_endline "1"
         | Some i -> Printf.printf "0 %d\n" (int_of_n i))
      | ["D"; letters] ->
        let evs = List.map (function
          | 'I' -> DIoFailure | 'C' -> DCommit true | 'c' -> DCommit false | 'S' -> DShutdown true
          | _ -> failwith "letter") (List.init (String.length letters) (String.get letters)) in
        let s = drun d_open evs in
        print_endline (if s.d_recovery_on_disk then "1" else "0")
      | ["D"] -> print_endline "1"
      | "T" :: toks -> print_endline (try run_trace toks with Failure e -> "T DRIVER " ^ e)
      | "F" :: toks -> print_endline (try run_fault toks with Failure e -> "BROKEN driver: " ^ e)
      | _ -> print_endline "BADLINE")
    done
  with End_of_file -> ()
