(* C04 oracle: replays an operation log (cases.txt, written by harness/src/bin/c04.rs) on the
   EXTRACTED SortedMap specification (coq/Base/SortedMap.v instantiated with Btree/Inst.v) and
   prints, for every operation, what an ordered map returns.  The check compares this text with
   what the real crate returned, line by line, for every storage configuration.

   Only glue lives here: parsing, the commit/abort bookkeeping (committed map vs working map),
   the canonical printer.  Every map operation is the extracted Coq function. *)
open C04_model

(* ---- text <-> extracted numbers *)
let rec pos_of_int i = if i = 1 then XH else if i land 1 = 1 then XI (pos_of_int (i lsr 1)) else XO (pos_of_int (i lsr 1))
let n_of_int i = if i = 0 then N0 else Npos (pos_of_int i)
let rec int_of_pos = function XH -> 1 | XO p -> 2 * int_of_pos p | XI p -> 2 * int_of_pos p + 1
let int_of_n = function N0 -> 0 | Npos p -> int_of_pos p
let byte_tab = Array.init 256 n_of_int
let hexval c = match c with '0'..'9' -> Char.code c - 48 | 'a'..'f' -> Char.code c - 87 | 'A'..'F' -> Char.code c - 55 | _ -> failwith "hex"
let bytes_of_hex (s : string) : n list =
  if s = "-" then []
  else if s.[0] = 'z' then begin
    (* compact form z<len>:<seed> of a pattern value: byte i = (seed + 7*i) mod 256 *)
    match String.split_on_char ':' (String.sub s 1 (String.length s - 1)) with
    | [l; sd] -> let l = int_of_string l and sd = int_of_string sd in
      List.init l (fun i -> byte_tab.((sd + 7 * i) land 255))
    | _ -> failwith "zform" end
  else begin
    let len = String.length s / 2 in
    let r = ref [] in
    for i = len - 1 downto 0 do
      r := byte_tab.(hexval s.[2*i] * 16 + hexval s.[2*i+1]) :: !r
    done; !r end
let n_of_dec (s : string) : n =
  (* decimal string -> N, using only extracted-type constructors via repeated doubling of an OCaml int is not
     enough for 64-bit values, so go through hex of the Int64 *)
  let v = Int64.of_string s in
  let rec bits v acc = if Int64.equal v 0L then acc else bits (Int64.shift_right_logical v 1) ((Int64.logand v 1L = 1L) :: acc) in
  (* most significant first *)
  match bits v [] with
  | [] -> N0
  | _ :: rest -> Npos (List.fold_left (fun p b -> if b then XI p else XO p) XH rest)

(* canonical printer shared with the harness: short strings in hex, long ones as #len:fnv1a64 *)
let canon (l : n list) : string =
  let len = List.length l in
  if len = 0 then "-"
  else if len <= 24 then String.concat "" (List.map (fun b -> Printf.sprintf "%02x" (int_of_n b)) l)
  else begin
    let h = ref 0xcbf29ce484222325L in
    List.iter (fun b -> h := Int64.mul (Int64.logxor !h (Int64.of_int (int_of_n b))) 0x100000001b3L) l;
    Printf.sprintf "#%d:%016Lx" len !h end

type kt = KtU64 | KtBytes
let key_of kt (s : string) : key =
  match kt with KtU64 -> key_of_u64_bytes (bytes_of_hex s) | KtBytes -> KBytes (bytes_of_hex s)
let key_bytes (k : key) : n list =
  match k with KU64 x -> le_encode (S (S (S (S (S (S (S (S O)))))))) x | KBytes b -> b
let pk k = canon (key_bytes k)
let pv v = canon v
let pe (k, v) = pk k ^ "=" ^ pv v
let pov = function Some v -> pv v | None -> "none"
let poe = function Some e -> pe e | None -> "none"
let plist l = if l = [] then "-" else String.concat "," l

let bound_of kt (s : string) : key bound =
  if s = "u" then Unbounded
  else if s.[0] = 'i' then Included (key_of kt (String.sub s 1 (String.length s - 1)))
  else if s.[0] = 'e' then Excluded (key_of kt (String.sub s 1 (String.length s - 1)))
  else failwith "bound"

let cmp = key_cmp

let () =
  let committed = ref [] and w = ref [] and kt = ref KtBytes in
  let dump tag =
    Printf.printf "%s %d %s\n" tag (int_of_n (len !committed)) (plist (List.map pe !committed)) in
  (try
    while true do
      let line = input_line stdin in
      let toks = Array.of_list (String.split_on_char ' ' line) in
      let key i = key_of !kt toks.(i) in
      let value i = bytes_of_hex toks.(i) in
      let pred mi ri = pred_mod (n_of_dec toks.(mi)) (n_of_dec toks.(ri)) in
      (match toks.(0) with
       | "C" ->
         committed := []; w := [];
         kt := (match toks.(2) with "u64" -> KtU64 | _ -> KtBytes);
         Printf.printf "C %s\n" toks.(1)
       | "B" -> w := !committed; print_endline "B"
       | "K" -> committed := !w; dump "K"
       | "A" -> w := !committed; dump "A"
       | "O" -> dump "O"
       | "I" ->
         let k = key 1 in
         let old = get cmp !w k in
         w := insert cmp !w k (value 2);
         Printf.printf "I %s\n" (pov old)
       | "R" ->
         let k = key 1 in
         w := insert cmp !w k (value 2);
         print_endline "R ok"
       | "G" -> Printf.printf "G %s\n" (pov (get cmp !w (key 1)))
       | "M" ->
         let k = key 1 in
         (match get cmp !w k with
          | None -> print_endline "M none"
          | Some old ->
            let out = Buffer.create 64 in
            Buffer.add_string out ("M " ^ pv old);
            for i = 2 to Array.length toks - 1 do
              if toks.(i) <> "_" then begin
                w := insert cmp !w k (value i);
                Buffer.add_string out (" " ^ pov (get cmp !w k)) end
            done;
            print_endline (Buffer.contents out))
       | "EO" ->
         let k = key 1 in
         (match get cmp !w k with
          | Some old -> Printf.printf "EO %s\n" (pv old)
          | None -> w := insert cmp !w k (value 2); Printf.printf "EO %s\n" (pov (get cmp !w k)))
       | "EM" ->
         let k = key 1 in
         (match get cmp !w k with
          | Some _ -> w := insert cmp !w k (value 2)
          | None -> w := insert cmp !w k (value 3));
         Printf.printf "EM %s\n" (pov (get cmp !w k))
       | "EI" ->
         let k = key 1 in
         (match get cmp !w k with
          | Some old -> w := insert cmp !w k (value 2); Printf.printf "EI occ %s\n" (pv old)
          | None -> w := insert cmp !w k (value 2); Printf.printf "EI vac %s\n" (pov (get cmp !w k)))
       | "ER" ->
         let k = key 1 in
         (match get cmp !w k with
          | Some old -> w := remove cmp !w k; Printf.printf "ER occ %s\n" (pv old)
          | None -> print_endline "ER vac")
       | "EE" ->
         let k = key 1 in
         (match get cmp !w k with
          | Some old -> w := remove cmp !w k; Printf.printf "EE occ %s\n" (pe (k, old))
          | None -> print_endline "EE vac")
       | "EG" ->
         (match get cmp !w (key 1) with
          | Some v -> Printf.printf "EG occ %s\n" (pv v)
          | None -> print_endline "EG vac")
       | "D" ->
         let k = key 1 in
         let old = get cmp !w k in
         w := remove cmp !w k;
         Printf.printf "D %s\n" (pov old)
       | "PF" -> let (e, m) = pop_first !w in w := m; Printf.printf "PF %s\n" (poe e)
       | "PL" -> let (e, m) = pop_last !w in w := m; Printf.printf "PL %s\n" (poe e)
       | "F" -> Printf.printf "F %s\n" (poe (first !w))
       | "L" -> Printf.printf "L %s\n" (poe (last !w))
       | "N" -> Printf.printf "N %d\n" (int_of_n (len !w))
       | "Q" ->
         let it = ref (range cmp !w (bound_of !kt toks.(1)) (bound_of !kt toks.(2))) in
         let outs = ref [] in
         String.iter (fun c ->
           match c with
           | 'f' -> let (e, r) = iter_next !it in it := r; outs := (match e with Some e -> pe e | None -> "~") :: !outs
           | 'b' -> let (e, r) = iter_next_back !it in it := r; outs := (match e with Some e -> pe e | None -> "~") :: !outs
           | 'd' -> List.iter (fun e -> outs := pe e :: !outs) !it; it := []
           | 'D' -> List.iter (fun e -> outs := pe e :: !outs) (List.rev !it); it := []
           | _ -> ()) toks.(3);
         Printf.printf "Q %s\n" (plist (List.rev !outs))
       | "T" -> w := retain (pred 1 2) !w; print_endline "T ok"
       | "U" -> w := retain_in cmp (bound_of !kt toks.(1)) (bound_of !kt toks.(2)) (pred 3 4) !w; print_endline "U ok"
       | "X" ->
         let p = pred 3 4 in
         let st = ref (ext_begin cmp !w (bound_of !kt toks.(1)) (bound_of !kt toks.(2))) in
         let outs = ref [] in
         String.iter (fun c ->
           match c with
           | 'f' -> let (e, s) = ext_next p !st in st := s; outs := (match e with Some e -> pe e | None -> "~") :: !outs
           | 'b' -> let (e, s) = ext_next_back p !st in st := s; outs := (match e with Some e -> pe e | None -> "~") :: !outs
           | _ -> ()) toks.(5);
         w := ext_finish !st;
         Printf.printf "X %s\n" (plist (List.rev !outs))
       | "" -> ()
       | _ -> print_endline "BADLINE")
    done
  with End_of_file -> ())
