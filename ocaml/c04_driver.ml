(* C04 oracle: replays an operation log (cases.txt, written by harness/src/bin/c04.rs) on the
   EXTRACTED SortedMap specification (coq/Base/SortedMap.v instantiated with Btree/Inst.v) and
   prints, for every operation, what an ordered map returns.  The check compares this text with
   what the real crate returned, line by line, for every storage configuration.

   Only glue lives here: parsing, the commit/abort bookkeeping (committed map vs working map),
   the canonical printer.  Every map operation is the extracted Coq function. *)
open C04_model

(* ---- text <-> extracted numbers *)
let rec pos_of_int i = if i = 1 then XH else if i land 1 = 1 then XI (pos_of_int (i lsr 1)) else XO (pos_of_int (i lsr 1))
let n_of_int i = if i = 0 then N0 else Npos (pos_of_int i)
let rec int_of_pos = function XH -> 1 | XO p -> 2 * int_of_pos p | XI p -> 2 * int_of_pos p + 1
let int_of_n = function N0 -> 0 | Npos p -> int_of_pos p
let byte_tab = Array.init 256 n_of_int
let hexval c = match c with '0'..'9' -> Char.code c - 48 | 'a'..'f' -> Char.code c - 87 | 'A'..'F' -> Char.code c - 55 | _ -> failwith "hex"
let bytes_of_hex (s : string) : n list =
  if s = "-" then []
  else if s.[0] = 'z' then begin
    (* compact form z<len>:<seed> of a pattern value: byte i = (seed + 7*i) mod 256 *)
    match String.split_on_char ':' (String.sub s 1 (String.length s - 1)) with
    | [l; sd] -> let l = int_of_string l and sd = int_of_string sd in
      List.init l (fun i -> byte_tab.((sd + 7 * i) land 255))
    | _ -> failwith "zform" end
  else begin
    let len = String.length s / 2 in
    let r = ref [] in
    for i = len - 1 downto 0 do
      r := byte_tab.(hexval s.[2*i] * 16 + hexval s.[2*i+1]) :: !r
    done; !r end
let n_of_dec (s : string) : n =
  (* decimal string -> N, using only extracted-type constructors via repeated doubling of an OCaml int is not
     enough for 64-bit values, so go through hex of the Int64 *)
  let v = Int64.of_string s in
  let rec bits v acc = if Int64.equal v 0L then acc else bits (Int64.shift_right_logical v 1) ((Int64.logand v 1L = 1L) :: acc) in
  (* most significant first *)
  match bits v [] with
  | [] -> N0
  | _ :: rest -> Npos (List.fold_left (fun p b -> if b then XI p else XO p) XH rest)

(* canonical printer shared with the harness: short strings in hex, long ones as #len:fnv1a64 *)
let canon (l : n list) : string =
  let len = List.length l in
  if len = 0 then "-"
  else if len <= 24 then String.concat "" (List.map (fun b -> Printf.sprintf "%02x" (int_of_n b)) l)
  else begin
    let h = ref 0xcbf29ce484222325L in
    List.iter (fun b -> h := Int64.mul (Int64.logxor !h (Int64.of_int (int_of_n b))) 0x100000001b3L) l;
    Printf.sprintf "#%d:%016Lx" len !h end

type kt = KtU64 | KtBytes
let key_of kt (s : string) : key =
  match kt with KtU64 -> key_of_u64_bytes (bytes_of_hex s) | KtBytes -> KBytes (bytes_of_hex s)
let key_bytes (k : key) : n list =
  match k with KU64 x -> le_encode (S (S (S (S (S (S (S (S O)))))))) x | KBytes b -> b
let pk k = canon (key_bytes k)
let pv v = canon v
let pe (k, v) = pk k ^ "=" ^ pv v
let pov = function Some v -> pv v | None -> "none"
let poe = function Some e -> pe e | None -> "none"
let plist l = if l = [] then "-" else String.concat "," l

let bound_of kt (s : string) : key bound =
  if s = "u" then Unbounded
  else if s.[0] = 'i' then Included (key_of kt (String.sub s 1 (String.length s - 1)))
  else if s.[0] = 'e' then Excluded (key_of kt (String.sub s 1 (String.length s - 1)))
  else failwith "bound"

let cmp = key_cmp

let spec_main () =
  let committed = ref [] and w = ref [] and kt = ref KtBytes in
  let dump tag =
    Printf.printf "%s %d %s\n" tag (int_of_n (len !committed)) (plist (List.map pe !committed)) in
  (try
    while true do
      let line = input_line stdin in
      let toks = Array.of_list (String.split_on_char ' ' line) in
      let key i = key_of !kt toks.(i) in
      let value i = bytes_of_hex toks.(i) in
      let pred mi ri = pred_mod (n_of_dec toks.(mi)) (n_of_dec toks.(ri)) in
      (match toks.(0) with
       | "C" ->
         committed := []; w := [];
         kt := (match toks.(2) with "u64" -> KtU64 | _ -> KtBytes);
         Printf.printf "C %s\n" toks.(1)
       | "B" -> w := !committed; print_endline "B"
       | "K" -> committed := !w; dump "K"
       | "A" -> w := !committed; dump "A"
       | "O" -> dump "O"
       | "I" ->
         let k = key 1 in
         let old = get cmp !w k in
         w := insert cmp !w k (value 2);
         Printf.printf "I %s\n" (pov old)
       | "R" ->
         let k = key 1 in
         w := insert cmp !w k (value 2);
         print_endline "R ok"
       | "G" -> Printf.printf "G %s\n" (pov (get cmp !w (key 1)))
       | "M" ->
         let k = key 1 in
         (match get cmp !w k with
          | None -> print_endline "M none"
          | Some old ->
            let out = Buffer.create 64 in
            Buffer.add_string out ("M " ^ pv old);
            for i = 2 to Array.length toks - 1 do
              if toks.(i) <> "_" then begin
                w := insert cmp !w k (value i);
                Buffer.add_string out (" " ^ pov (get cmp !w k)) end
            done;
            print_endline (Buffer.contents out))
       | "EO" ->
         let k = key 1 in
         (match get cmp !w k with
          | Some old -> Printf.printf "EO %s\n" (pv old)
          | None -> w := insert cmp !w k (value 2); Printf.printf "EO %s\n" (pov (get cmp !w k)))
       | "EM" ->
         let k = key 1 in
         (match get cmp !w k with
          | Some _ -> w := insert cmp !w k (value 2)
          | None -> w := insert cmp !w k (value 3));
         Printf.printf "EM %s\n" (pov (get cmp !w k))
       | "EI" ->
         let k = key 1 in
         (match get cmp !w k with
          | Some old -> w := insert cmp !w k (value 2); Printf.printf "EI occ %s\n" (pv old)
          | None -> w := insert cmp !w k (value 2); Printf.printf "EI vac %s\n" (pov (get cmp !w k)))
       | "ER" ->
         let k = key 1 in
         (match get cmp !w k with
          | Some old -> w := remove cmp !w k; Printf.printf "ER occ %s\n" (pv old)
          | None -> print_endline "ER vac")
       | "EE" ->
         let k = key 1 in
         (match get cmp !w k with
          | Some old -> w := remove cmp !w k; Printf.printf "EE occ %s\n" (pe (k, old))
          | None -> print_endline "EE vac")
       | "EG" ->
         (match get cmp !w (key 1) with
          | Some v -> Printf.printf "EG occ %s\n" (pv v)
          | None -> print_endline "EG vac")
       | "D" ->
         let k = key 1 in
         let old = get cmp !w k in
         w := remove cmp !w k;
         Printf.printf "D %s\n" (pov old)
       | "PF" -> let (e, m) = pop_first !w in w := m; Printf.printf "PF %s\n" (poe e)
       | "PL" -> let (e, m) = pop_last !w in w := m; Printf.printf "PL %s\n" (poe e)
       | "F" -> Printf.printf "F %s\n" (poe (first !w))
       | "L" -> Printf.printf "L %s\n" (poe (last !w))
       | "N" -> Printf.printf "N %d\n" (int_of_n (len !w))
       | "Q" ->
         let it = ref (range cmp !w (bound_of !kt toks.(1)) (bound_of !kt toks.(2))) in
         let outs = ref [] in
         String.iter (fun c ->
           match c with
           | 'f' -> let (e, r) = iter_next !it in it := r; outs := (match e with Some e -> pe e | None -> "~") :: !outs
           | 'b' -> let (e, r) = iter_next_back !it in it := r; outs := (match e with Some e -> pe e | None -> "~") :: !outs
           | 'd' -> List.iter (fun e -> outs := pe e :: !outs) !it; it := []
           | 'D' -> List.iter (fun e -> outs := pe e :: !outs) (List.rev !it); it := []
           | _ -> ()) toks.(3);
         Printf.printf "Q %s\n" (plist (List.rev !outs))
       | "T" -> w := retain (pred 1 2) !w; print_endline "T ok"
       | "U" -> w := retain_in cmp (bound_of !kt toks.(1)) (bound_of !kt toks.(2)) (pred 3 4) !w; print_endline "U ok"
       | "X" ->
         let p = pred 3 4 in
         let st = ref (ext_begin cmp !w (bound_of !kt toks.(1)) (bound_of !kt toks.(2))) in
         let outs = ref [] in
         String.iter (fun c ->
           match c with
           | 'f' -> let (e, s) = ext_next p !st in st := s; outs := (match e with Some e -> pe e | None -> "~") :: !outs
           | 'b' -> let (e, s) = ext_next_back p !st in st := s; outs := (match e with Some e -> pe e | None -> "~") :: !outs
           | 'd' ->
             let continue = ref true in
             while !continue do
               let (e, s) = ext_next p !st in st := s;
               (match e with Some e -> outs := pe e :: !outs | None -> continue := false)
             done
           | 'D' ->
             let continue = ref true in
             while !continue do
               let (e, s) = ext_next_back p !st in st := s;
               (match e with Some e -> outs := pe e :: !outs | None -> continue := false)
             done
           | _ -> ()) toks.(5);
         w := ext_finish !st;
         Printf.printf "X %s\n" (plist (List.rev !outs))
       | "" -> ()
       | _ -> print_endline "BADLINE")
    done
  with End_of_file -> ())

(* ================================================================================================
   shape mode (S2):  c04_driver shape [verbose]  < shape_cases.txt  > shape_model.txt
   Replays a shape program on the EXTRACTED shape model (coq/Btree/Shape.v) and prints, after the
   opening of every transaction and after every operation, the model's tree in the canonical format
   of harness/src/c04_util.rs (shape_line).  The model parameters mirror the code: key/value sizes are
   the encoded byte lengths, fixed_k / fixed_v the table's types, the separator the C15 model's
   branch_separator of the key type; dirty flags are cleared by s_commit.
   Glue only: parsing, commit/abort bookkeeping (committed tree vs working tree), the printer, and two
   run-time cross checks that print a marker line when they fail:
     ERASE!  the erasure of the shape model's result differs from Mutator.insert/delete run on the erased
             tree with the oracle taken from the shape model (ShapeP.v proves they are equal)
     INV!    the executable invariant checker rejects the model's tree
   Unless `verbose` is given, a shape line is replaced by its length and FNV-1a digest. *)
let fnv (s : string) : string =
  let h = ref 0xcbf29ce484222325L in
  String.iter (fun c -> h := Int64.mul (Int64.logxor !h (Int64.of_int (Char.code c))) 0x100000001b3L) s;
  Printf.sprintf "%016Lx" !h

let shape_text ps fk fv (st : (key, bytes) sbtree) : string =
  let buf = Buffer.create 1024 in
  Buffer.add_string buf (Printf.sprintf "S %d" (int_of_n st.sb_len));
  let rec go depth (t : (key, bytes) snode) =
    match t with
    | SLeaf (d, a, es) ->
      let used = leaf_required fk fv (n_of_int (List.length es)) (leaf_bytes key_size val_size es) in
      Buffer.add_string buf (Printf.sprintf " L%d%c%d/%d:" depth (if d then 'd' else 'c') (int_of_n a) (int_of_n used));
      Buffer.add_string buf (String.concat "," (List.map (fun (k, v) -> pk k ^ "=" ^ string_of_int (List.length v)) es))
    | SBranch (d, c0, rest) ->
      let used = branch_required fk (n_of_int (List.length rest)) (keys_size key_size (List.map fst rest)) in
      Buffer.add_string buf (Printf.sprintf " B%d%c%d/%d:" depth (if d then 'd' else 'c') (int_of_n (alloc_for ps used)) (int_of_n used));
      Buffer.add_string buf (String.concat "," (List.map (fun (s, _) -> pk s) rest));
      go (depth + 1) c0; List.iter (fun (_, c) -> go (depth + 1) c) rest in
  (match st.sb_root with None -> Buffer.add_string buf " -" | Some t -> go 0 t);
  Buffer.contents buf

(* logical tree (no decorations), for the erasure cross check *)
let logical_text (bt : (key, bytes) btree) : string =
  let buf = Buffer.create 1024 in
  Buffer.add_string buf (string_of_int (int_of_n bt.bt_len));
  let rec go (t : (key, bytes) node) =
    match t with
    | Leaf es -> Buffer.add_string buf " L:"; List.iter (fun (k, v) -> Buffer.add_string buf (pk k ^ "=" ^ pv v ^ ",")) es
    | Branch (c0, rest) ->
      Buffer.add_string buf " B:"; List.iter (fun (s, _) -> Buffer.add_string buf (pk s ^ ",")) rest;
      Buffer.add_string buf "("; go c0; List.iter (fun (_, c) -> go c) rest; Buffer.add_string buf ")" in
  (match bt.bt_root with None -> () | Some t -> go t);
  Buffer.contents buf

let shape_main verbose =
  let committed = ref sempty and w = ref sempty and kt = ref KtBytes in
  let fk = ref false and fv = ref false and ps = ref (n_of_int 512) and sep = ref key_sep_bytes in
  let emit () =
    let t = shape_text !ps !fk !fv !w in
    if verbose then print_endline t
    else Printf.printf "S %d #%d:%s\n" (int_of_n !w.sb_len) (String.length t) (fnv t);
    if not (m_tree_checkb (erase_tree !w)) then print_endline "INV!" in
  let check_erasure what (expected : (key, bytes) btree) =
    (* structural comparison of the two logical trees (keys, values, structure); `compare` skips physically shared parts *)
    if compare expected (erase_tree !w) <> 0 then
      Printf.printf "ERASE! %s: Mutator.v gives %s, erasure of Shape.v gives %s\n" what (logical_text expected) (logical_text (erase_tree !w)) in
  let markers : (string, int) Hashtbl.t = Hashtbl.create 64 in
  let mark name = Hashtbl.replace markers name (1 + (try Hashtbl.find markers name with Not_found -> 0)) in
  let ins_names = [| "insert:first-entry"; "insert:single-large-value-new-leaf-in-front"; "insert:single-large-value-new-leaf-behind";
                     "insert:in-place-insert"; "insert:in-place-replace"; "insert:same-size-patch"; "insert:rightmost-append";
                     "insert:rebuild-no-split"; "insert:leaf-split" |] in
  let del_name c = match c with
    | 1 -> "delete:leaf-in-place" | 2 -> "delete:leaf-rebuilt" | 34 -> "delete:PartialLeaf" | 33 -> "delete:DeletedSubtree(leaf emptied)"
    | 10 -> "delete:branch-skip" | 11 -> "delete:branch-child-written-in-place" | 12 -> "delete:branch-copied"
    | 13 -> "delete:child-removed" | 14 -> "delete:single-large-value-exemption"
    | 15 -> "delete:leaf-merge-left" | 16 -> "delete:leaf-merge-right" | 17 -> "delete:leaf-merge-left+re-split" | 18 -> "delete:leaf-merge-right+re-split"
    | 19 -> "delete:DeletedBranch-joins-left" | 20 -> "delete:DeletedBranch-joins-right" | 21 -> "delete:DeletedBranch-joins-left+re-split" | 22 -> "delete:DeletedBranch-joins-right+re-split"
    | 23 -> "delete:PartialBranch-merge-left" | 24 -> "delete:PartialBranch-merge-right" | 25 -> "delete:PartialBranch-merge-left+re-split" | 26 -> "delete:PartialBranch-merge-right+re-split"
    | 30 -> "delete:finalize->DeletedBranch" | 31 -> "delete:finalize->PartialBranch" | 32 -> "delete:finalize->Subtree"
    | 40 -> "delete:root-collapse" | 41 -> "delete:tree-emptied" | 42 -> "delete:root-from-PartialLeaf" | 43 -> "delete:root-from-PartialBranch"
    | c -> "delete:tag-" ^ string_of_int c in
  let rec count_nodes (t : (key, bytes) snode) = match t with
    | SLeaf _ -> (1, 0, 0)
    | SBranch (_, c0, rest) ->
      List.fold_left (fun (l, b, h) (_, c) -> let (l', b', _) = count_nodes c in (l + l', b + b', h))
        (let (l, b, h) = count_nodes c0 in (l, b + 1, h + 1)) rest in
  let dims () = match !w.sb_root with None -> (0, 0, 0) | Some t -> count_nodes t in
  let mark_del k = List.iter (fun c -> mark (del_name (int_of_n c))) (s_delete_tag_list key_cmp key_size val_size !fk !fv !ps !sep !w k) in
  let abs_of (st : (key, bytes) sbtree) = abs_tree (erase_tree st) in
  let s_ins k v =
    mark ins_names.(int_of_n (s_insert_tag key_cmp key_size val_size !fk !fv !ps !w k v));
    let (_, b0, h0) = dims () in
    let oracle = s_oracle key_cmp key_size val_size !fk !fv !ps !w k v in
    let (m', _) = m_insert !fk !fv !ps !sep oracle (erase_tree !w) k v in
    let (w', old) = s_insert key_cmp key_size val_size !fk !fv !ps !sep !w k v in
    w := w'; check_erasure "insert" m';
    let (_, b1, h1) = dims () in
    if h1 > h0 then mark "insert:root-growth";
    if b1 - b0 - (if h1 > h0 then 1 else 0) > 0 then mark "insert:branch-split";
    old in
  let s_del k =
    mark_del k;
    let (m', _) = m_delete !fk !fv !ps !sep (erase_tree !w) k in
    let (w', old) = s_delete key_cmp key_size val_size !fk !fv !ps !sep !w k in
    w := w'; check_erasure "delete" m'; old in
  (try
    while true do
      let line = input_line stdin in
      let toks = Array.of_list (String.split_on_char ' ' line) in
      let key i = key_of !kt toks.(i) in
      let value i = bytes_of_hex toks.(i) in
      (match toks.(0) with
       | "C" ->
         committed := sempty; w := sempty;
         kt := (match toks.(2) with "u64" -> KtU64 | _ -> KtBytes);
         fk := (toks.(2) = "u64"); fv := (toks.(3) = "u64");
         sep := (match toks.(2) with "u64" -> key_sep_left | "str" -> key_sep_str | _ -> key_sep_bytes);
         ps := n_of_int (int_of_string toks.(4));
         Printf.printf "C %s\n" toks.(1)
       | "B" -> w := !committed; print_endline "B"; emit ()
       | "K" -> committed := s_commit !w; print_endline "K"
       | "A" -> w := !committed; print_endline "A"
       | "O" -> ()
       | "I" -> let old = s_ins (key 1) (value 2) in Printf.printf "I %s\n" (pov old); emit ()
       | "D" -> let old = s_del (key 1) in Printf.printf "D %s\n" (pov old); emit ()
       | "PF" ->
         (match tfirst (erase_tree !w) with Some (k, _) -> mark_del k | None -> mark "pop:empty");
         let (w', e) = s_pop_first key_cmp key_size val_size !fk !fv !ps !sep !w in
         w := w'; Printf.printf "PF %s\n" (poe e); emit ()
       | "PL" ->
         (match tlast (erase_tree !w) with Some (k, _) -> mark_del k | None -> mark "pop:empty");
         let (w', e) = s_pop_last key_cmp key_size val_size !fk !fv !ps !sep !w in
         w := w'; Printf.printf "PL %s\n" (poe e); emit ()
       | "R" | "M" | "EO" | "EM" | "EI" | "ER" | "EE" | "EG" ->
         let k = key 1 in
         let vals = List.filter_map (fun i -> if i < Array.length toks && toks.(i) <> "_" then Some (value i) else None) [2; 3] in
         let v1 () = List.nth vals 0 and v2 () = List.nth vals 1 in
         let present = get key_cmp (abs_of !w) k in
         let (g, first_insert) = match toks.(0) with
           | "R" -> (GReserve (k, v1 ()), Some (blank_bytes (v1 ())))
           | "M" -> (GGetMut (k, vals), None)
           | "EO" -> (GEntryOrInsert (k, v1 ()), (if present = None then Some (v1 ()) else None))
           | "EM" -> (GEntryModify (k, v1 (), v2 ()), (if present = None then Some (v2 ()) else None))
           | "EI" -> (GEntryInsert (k, v1 ()), Some (v1 ()))
           | "ER" -> (GEntryRemove k, None)
           | "EE" -> (GEntryRemoveEntry k, None)
           | _ -> (GEntryGet k, None) in
         mark ("guard-op:" ^ toks.(0) ^ (if present = None then ":absent" else ":present"));
         (match first_insert with
          | Some v -> mark ins_names.(int_of_n (s_insert_tag key_cmp key_size val_size !fk !fv !ps !w k v))
          | None -> if toks.(0) = "ER" || toks.(0) = "EE" then mark_del k);
         (* which path the guard writes of this operation take, and on a tree of which height *)
         (let height = (let (_, _, h) = dims () in h) in
          let tag st v = mark ((match int_of_n (s_guard_tag key_cmp key_size val_size !fk !fv !ps st k v) with
              | 1 -> "guard-write:in-place" | 2 -> "guard-write:leaf-rebuilt" | 3 -> "guard-write:leaf-rebuilt-multi-entry-over-one-page" | _ -> "guard-write:absent")
              ^ (if height >= 1 then ":height>=1" else ":root-leaf")) in
          match toks.(0), present with
          | "M", Some _ ->
            ignore (List.fold_left (fun st v -> tag st v; fst (s_guard_set key_cmp key_size val_size !fk !fv !ps st k v))
                      (s_get_mut key_cmp !w k) vals)
          | "EM", Some _ -> tag (s_get_mut key_cmp !w k) (v1 ())
          | _ -> ());
         let oracle = match first_insert with
           | Some v -> s_oracle key_cmp key_size val_size !fk !fv !ps !w k v
           | None -> (fun _ _ _ -> false) in
         let (_, m') = m_apply_gop !fk !fv !ps !sep oracle blank_bytes (erase_tree !w) g in
         let (out, w') = s_apply_gop key_cmp key_size val_size !fk !fv !ps !sep blank_bytes !w g in
         w := w'; check_erasure ("guard op " ^ toks.(0)) m';
         let old = match out with OVal o -> o | OEntry (Some (_, v)) -> Some v | _ -> None in
         (match toks.(0) with
          | "R" -> print_endline "R ok"
          | "M" -> (match old with
                    | None -> print_endline "M none"
                    | Some o -> print_endline (String.concat " " (("M " ^ pv o) :: List.map pv vals)))
          | "EO" -> Printf.printf "EO %s\n" (match old with Some o -> pv o | None -> pv (v1 ()))
          | "EM" -> Printf.printf "EM %s\n" (match old with Some _ -> pv (v1 ()) | None -> pv (v2 ()))
          | "EI" -> (match old with Some o -> Printf.printf "EI occ %s\n" (pv o) | None -> Printf.printf "EI vac %s\n" (pv (v1 ())))
          | "ER" -> (match old with Some o -> Printf.printf "ER occ %s\n" (pv o) | None -> print_endline "ER vac")
          | "EE" -> (match old with Some o -> Printf.printf "EE occ %s\n" (pe (k, o)) | None -> print_endline "EE vac")
          | _ -> (match old with Some o -> Printf.printf "EG occ %s\n" (pv o) | None -> print_endline "EG vac"));
         emit ()
       | "T" | "U" ->
         let (lo, hi, mi, ri) = if toks.(0) = "T" then (Unbounded, Unbounded, 1, 2) else (bound_of !kt toks.(1), bound_of !kt toks.(2), 3, 4) in
         let p = pred_mod (n_of_dec toks.(mi)) (n_of_dec toks.(ri)) in
         let before = abs_of !w in
         (* = ShapeScan.s_retain_in unfolded, with the store's flush / splice wrapped to count the paths taken *)
         let rec nat_of_int i = if i <= 0 then O else S (nat_of_int (i - 1)) in
         let height = (let (_, _, h) = dims () in h) in
         let hs = if height >= 2 then ":height>=2" else if height = 1 then ":height=1" else ":root-leaf" in
         let flush allow st j idx = mark ("retain:flush(delete_leaf_entries)" ^ hs);
           s_flush key_size val_size !fk !fv !ps !sep allow st j idx in
         let splice st j n es removed =
           mark ("retain:splice(replace_leaf_children):" ^ (match n with S (S _) -> "run-of-several-leaves" | _ -> "run-of-one-leaf") ^ (if es = [] then ":no-entries-left" else "") ^ hs);
           s_splice key_size val_size !fk !fv !ps !sep st j n es removed in
         let w' = scan_retain_in key_cmp sb_leaves (s_seek key_cmp) flush splice s_has_parent s_more_children
                    (s_underfilling key_size val_size !fk !fv !ps) (s_packs key_size val_size !fk !fv !ps)
                    (nat_of_int (List.length before + 1)) (nat_of_int 4) !w lo hi p in
         let m' = m_retain_in !fk !fv !ps !sep (erase_tree !w) lo hi p in
         w := w'; check_erasure "retain_in (ScanTree.v)" m';
         (* cross check with the specification (RetainP.v proves it for the logical tree) *)
         if compare (abs_of !w) (retain_in key_cmp lo hi p before) <> 0 then print_endline "SPEC! retain_in";
         mark ("retain:" ^ (if List.length before = List.length (abs_of !w) then "nothing-removed" else "removed"));
         print_endline (if toks.(0) = "T" then "T ok" else "U ok"); emit ()
       | "X" ->
         let p = pred_mod (n_of_dec toks.(3)) (n_of_dec toks.(4)) in
         let before = abs_of !w in
         let lo = bound_of !kt toks.(1) and hi = bound_of !kt toks.(2) in
         let x = ref (s_extract_new !w lo hi) in
         let mx = ref (m_extract_new (erase_tree !w) lo hi) in
         let spec = ref (ext_begin key_cmp before lo hi) in
         let outs = ref [] in
         let step d =
           let (e, x') = s_extract_next key_cmp key_size val_size !fk !fv !ps !sep entry_eqb p !x d in
           x := x';
           let (me, mx') = m_extract_next !fk !fv !ps !sep entry_eqb p !mx d in
           mx := mx';
           if compare e me <> 0 then print_endline "ERASE! extract step (ScanTree.v yields another entry)";
           (* cross check with the specification iterator (ScanP.v / ScanBackP.v prove it for the logical tree when only one end is consumed) *)
           let (e', s') = (match d with DNext -> ext_next p !spec | DPrev -> ext_next_back p !spec) in
           spec := s';
           if compare e e' <> 0 then print_endline "SPEC! extract step";
           e in
         String.iter (fun c ->
           match c with
           | 'f' -> outs := (match step DNext with Some e -> pe e | None -> "~") :: !outs
           | 'b' -> outs := (match step DPrev with Some e -> pe e | None -> "~") :: !outs
           | 'd' -> let go = ref true in while !go do (match step DNext with Some e -> outs := pe e :: !outs | None -> go := false) done
           | 'D' -> let go = ref true in while !go do (match step DPrev with Some e -> outs := pe e :: !outs | None -> go := false) done
           | _ -> ()) toks.(5);
         w := s_extract_close key_cmp key_size val_size !fk !fv !ps !sep entry_eqb !x;
         check_erasure "extract (ScanTree.v)" (m_extract_close !fk !fv !ps !sep entry_eqb !mx);
         if compare (abs_of !w) (ext_finish !spec) <> 0 then print_endline "SPEC! extract result";
         mark ("extract:" ^ (if String.contains toks.(5) 'f' || String.contains toks.(5) 'd' then "front" else "") ^
               (if String.contains toks.(5) 'b' || String.contains toks.(5) 'D' then "back" else "") ^
               (if List.length before = List.length (abs_of !w) then ":nothing-removed" else ":removed"));
         Printf.printf "X %s\n" (plist (List.rev !outs)); emit ()
       | "" -> ()
       | _ -> print_endline "UNMODELLED"; emit ())
    done
  with End_of_file -> ());
  let oc = open_out "shape_markers.txt" in
  List.iter (fun (k, v) -> Printf.fprintf oc "%s=%d\n" k v)
    (List.sort compare (Hashtbl.fold (fun k v acc -> (k, v) :: acc) markers []));
  close_out oc

let () =
  if Array.length Sys.argv > 1 && Sys.argv.(1) = "shape" then
    shape_main (Array.length Sys.argv > 2 && Sys.argv.(2) = "verbose")
  else spec_main ()
