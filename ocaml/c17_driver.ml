(* Line-protocol driver around the extracted C17 model (coq/Catalog).
   stdin: op log of harness/src/bin/c17.rs
     P <id> <page_size>
     open <name> <n|m> <K> <V>      K, V = <class>:<hexname>:<legacy|->:<width|->
     close <name> | put <name> <key> <value> | del <name> <key> <value> | read <name>
     rename <n|m> <from> <to> | delete <n|m> <name> | list <n|m> | commit | abort
     ropen <name> <n|m> <K> <V> | ropenu <name> <n|m> | rlist <n|m>
   names, keys, values are hex ("-" = empty).
   argv: <spec_out> <model_out>: result of every op by the atomic-map SPEC and by the MODEL of the code. *)
open C17_model

let rec pos_of_bits = function
  | [] -> failwith "pos_of_bits"
  | [true] -> XH
  | b :: r -> if b then XI (pos_of_bits r) else XO (pos_of_bits r)
let n_of_int (i : int) : n =
  if i = 0 then N0 else begin
    let rec bits i = if i = 0 then [] else (i land 1 = 1) :: bits (i lsr 1) in
    Npos (pos_of_bits (bits i)) end
let rec int_of_pos = function XH -> 1 | XO p -> 2 * int_of_pos p | XI p -> 2 * int_of_pos p + 1
let int_of_n = function N0 -> 0 | Npos p -> int_of_pos p
let byte_tbl = Array.init 256 n_of_int
let bytes_of_hex s : n list =
  if s = "-" then [] else List.init (String.length s / 2) (fun i -> byte_tbl.(int_of_string ("0x" ^ String.sub s (2*i) 2)))
let hex_of_bytes (l : n list) =
  if l = [] then "-" else String.concat "" (List.map (fun x -> Printf.sprintf "%02x" (int_of_n x)) l)

let kind_of = function "n" -> Normal | "m" -> Multimap | s -> failwith ("kind " ^ s)
let opt_n s = if s = "-" then None else Some (n_of_int (int_of_string s))
let rtype_of s =
  match String.split_on_char ':' s with
  | [c; nm; leg; w] ->
    { rt_name = { tn_class = n_of_int (int_of_string c); tn_name = bytes_of_hex nm }; rt_legacy = opt_n leg; rt_width = opt_n w }
  | _ -> failwith ("rtype " ^ s)
let tn_s t = Printf.sprintf "%d/%s" (int_of_n t.tn_class) (hex_of_bytes t.tn_name)
let optn_s = function None -> "-" | Some x -> string_of_int (int_of_n x)
let err_s = function
  | ETypeMismatch (t, k, v) -> Printf.sprintf "err:TypeMismatch:%s:%s:%s" (hex_of_bytes t) (tn_s k) (tn_s v)
  | EIsMultimap t -> "err:IsMultimap:" ^ hex_of_bytes t
  | EIsNotMultimap t -> "err:IsNotMultimap:" ^ hex_of_bytes t
  | ETypeDefChanged (t, a, w) -> Printf.sprintf "err:TypeDefChanged:%s:%d:%s" (tn_s t) (int_of_n a) (optn_s w)
  | EAlreadyOpen t -> "err:AlreadyOpen:" ^ hex_of_bytes t
  | EDoesNotExist t -> "err:DoesNotExist:" ^ hex_of_bytes t
  | EExists t -> "err:Exists:" ^ hex_of_bytes t
let res_s ?(untyped = false) = function
  | ROk -> "ok"
  | RBool b -> if b then "t" else "f"
  | RNames l -> "names:" ^ String.concat "," (List.map hex_of_bytes l)
  | RContents (c, l) ->
    if untyped then Printf.sprintf "ulen:%d" (int_of_n l)
    else Printf.sprintf "contents:%d:%s" (int_of_n l) (String.concat "," (List.map (fun (k, v) -> hex_of_bytes k ^ "=" ^ hex_of_bytes v) c))
  | RErr e -> err_s e
  | RBad -> "bad"

let () =
  let spec_oc = open_out Sys.argv.(1) and model_oc = open_out Sys.argv.(2) in
  let spec = ref sp_init and model = ref c_init in
  let emit a b = output_string spec_oc (a ^ "\n"); output_string model_oc (b ^ "\n") in
  let step ?(untyped = false) o =
    let (s', so) = spec_step o !spec in
    let (m', mo) = model_step o !model in
    spec := s'; model := m';
    emit (res_s ~untyped so) (res_s ~untyped mo) in
  (try
    while true do
      let line = input_line stdin in
      match String.split_on_char ' ' line with
      | ["P"; _; _] -> spec := sp_init; model := c_init; emit "P" "P"
      | ["open"; nm; k; kt; vt] -> step (COpen (bytes_of_hex nm, kind_of k, rtype_of kt, rtype_of vt))
      | ["close"; nm] -> step (CClose (bytes_of_hex nm))
      | ["put"; nm; k; v] -> step (CPut (bytes_of_hex nm, bytes_of_hex k, bytes_of_hex v))
      | ["del"; nm; k; v] -> step (CDel (bytes_of_hex nm, bytes_of_hex k, bytes_of_hex v))
      | ["read"; nm] -> step (CRead (bytes_of_hex nm))
      | ["rename"; k; a; b] -> step (CRename (kind_of k, bytes_of_hex a, bytes_of_hex b))
      | ["delete"; k; nm] -> step (CDelete (kind_of k, bytes_of_hex nm))
      | ["list"; k] -> step (CList (kind_of k))
      | ["commit"] -> step CCommit
      | ["abort"] -> step CAbort
      | ["ropen"; nm; k; kt; vt] -> step (CROpen (bytes_of_hex nm, kind_of k, rtype_of kt, rtype_of vt))
      | ["ropenu"; nm; k] -> step ~untyped:true (CROpenUntyped (bytes_of_hex nm, kind_of k))
      | ["rlist"; k] -> step (CRList (kind_of k))
      | _ -> emit "BADLINE" "BADLINE"
    done
  with End_of_file -> ());
  close_out spec_oc; close_out model_oc
