(* Line-protocol driver around the extracted C20 model (contract monitor + layout arithmetic).
   All numbers are hexadecimal and stay the extracted inductive N.
     T <id> <ro> <len0> <ev>...        ev = L+ | R<off>:<len>+ | W<off>:<len>+ | S<n>+ | Y+ | C+   (+ ok, - err)
         -> c=<0|1> p=<0|1> bad=<idx|->
     LC <desired> <cap> <hdr> <ps>     -> <nf> <cap> <hdr> <ps> <trailing|-> <nregions> <len> <usable>
     LR <file_len> <hdr> <cap> <ps>    -> same
     LB <file_len> <hdr> <cap> <ps> <region> -> <base>
     LF <file_len> <hdr> <cap> <ps>    -> some | none
     PA <region> <index> <order> <dso> <rsize> <rstart> <ps> -> <start> <end>
     U <backend_len> <nf> <cap> <hdr> <ps> <trailing|-> <region> <index> <order>
         -> valid=<b> in=<b> <start> <end> inb=<b>      (inb: page_size <= start /\ end <= backend_len)
     H <id> <step>...                  step = events of one API step joined by ',' (or -), event =
         O<calls>:<ok>:<cok> | r+ | r-<cok> | R<calls> | D<calls> | W<calls> | w+ |
         w-<commit calls>:<flush calls>:<cok> | d-<commit calls>:<flush calls>:<cok>
         calls: o/x latching call answered Ok/Err, b/y write_best_effort answered Ok/Err;  +/- Ok/Err
         -> per step  <closes>;<after>;<stream>   stream = e<o|b><iof><closed> C<iof><closed> D<iof><closed> B<+|-> X<+|->
            (or INVALID if the history is impossible in the model)
     HT <id> <step>;<closes>;<after>... -> ok | bad <step> expected=<n> observed=<n> after=<n> | malformed <step>      (timing oracle; decimal counts) *)
open C20_model

let rec pos_of_bits = function
  | [] -> failwith "pos_of_bits"
  | [true] -> XH
  | b :: r -> if b then XI (pos_of_bits r) else XO (pos_of_bits r)
let n_of_hex (s : string) : n =
  let bits = ref [] in                  (* least significant first *)
  String.iter (fun c ->
    let d = int_of_string ("0x" ^ String.make 1 c) in
    bits := (d land 1 <> 0) :: (d land 2 <> 0) :: (d land 4 <> 0) :: (d land 8 <> 0) :: !bits) s;
  (* !bits is now: for the LAST digit its bits lsb-first come first -> overall lsb first *)
  let rec strip = function false :: r -> strip r | l -> l in
  match List.rev (strip (List.rev !bits)) with [] -> N0 | l -> Npos (pos_of_bits l)
let rec bits_of_pos = function XH -> [true] | XO p -> false :: bits_of_pos p | XI p -> true :: bits_of_pos p
let hex_of_n (x : n) : string =
  match x with N0 -> "0" | Npos p ->
    let bits = Array.of_list (bits_of_pos p) in
    let nb = Array.length bits in
    let nd = (nb + 3) / 4 in
    String.init nd (fun i ->
      let k = nd - 1 - i in
      let v = ref 0 in
      for j = 3 downto 0 do
        let idx = 4 * k + j in
        v := !v * 2 + (if idx < nb && bits.(idx) then 1 else 0) done;
      "0123456789abcdef".[!v])
let b01 b = if b then "1" else "0"

let parse_ev (s : string) : event =
  let n = String.length s in
  let ok = s.[n - 1] = '+' in
  let body = String.sub s 1 (n - 2) in
  let two () = match String.split_on_char ':' body with
    | [a; b] -> (n_of_hex a, n_of_hex b) | _ -> failwith ("event " ^ s) in
  let c = match s.[0] with
    | 'L' -> CLen
    | 'R' -> let (a, b) = two () in CRead (a, b)
    | 'W' -> let (a, b) = two () in CWrite (a, b)
    | 'S' -> CSetLen (n_of_hex body)
    | 'Y' -> CSync
    | 'C' -> CClose
    | _ -> failwith ("event " ^ s) in
  (c, ok)

let fmt_layout (l : db_layout) =
  Printf.sprintf "%s %s %s %s %s %s %s %s"
    (hex_of_n l.dl_num_full) (hex_of_n l.dl_full.rl_num_pages) (hex_of_n l.dl_full.rl_header_pages)
    (hex_of_n l.dl_full.rl_page_size)
    (match l.dl_trailing with Some t -> hex_of_n t.rl_num_pages | None -> "-")
    (hex_of_n (dl_num_regions l)) (hex_of_n (dl_len l)) (hex_of_n (dl_usable l))

let n_le a b = N.leb a b

(* ---- shutdown model (H / HT lines) ---- *)
let rec n_of_int (i : int) : n =
  if i <= 0 then N0 else
    let rec pos k = if k = 1 then XH else if k land 1 = 1 then XI (pos (k lsr 1)) else XO (pos (k lsr 1)) in
    Npos (pos i)
let int_of_n (x : n) : int =
  match x with N0 -> 0 | Npos p ->
    let rec go = function XH -> 1 | XO q -> 2 * go q | XI q -> 2 * go q + 1 in go p
let parse_calls (s : string) : wcall list =
  List.init (String.length s) (fun i -> match s.[i] with
    | 'o' -> (KOp, true) | 'x' -> (KOp, false) | 'b' -> (KBest, true) | 'y' -> (KBest, false)
    | _ -> failwith ("calls " ^ s))
let pm_ok (s : string) = match s with "+" -> true | "-" -> false | _ -> failwith ("answer " ^ s)
let parse_sev (s : string) : sevent =
  let n = String.length s in
  if n = 0 then failwith "empty event" else
  let rest k = String.sub s k (n - k) in
  match s.[0] with
  | 'O' -> (match String.split_on_char ':' (rest 1) with
            | [cs; ok; cok] -> SOpen (parse_calls cs, pm_ok ok, pm_ok cok) | _ -> failwith ("event " ^ s))
  | 'r' -> if s = "r+" then SBeginRead
           else if n = 3 && s.[1] = '-' then SEndRead (pm_ok (rest 2)) else failwith ("event " ^ s)
  | 'R' -> SReadIo (parse_calls (rest 1))
  | 'D' -> SDbIo (parse_calls (rest 1))
  | 'W' -> SWriteIo (parse_calls (rest 1))
  | 'w' -> if s = "w+" then SBeginWrite
           else if n >= 2 && s.[1] = '-' then
             (match String.split_on_char ':' (rest 2) with
              | [c; f; k] -> SEndWrite (parse_calls c, parse_calls f, pm_ok k) | _ -> failwith ("event " ^ s))
           else failwith ("event " ^ s)
  | 'd' -> if n >= 2 && s.[1] = '-' then
             (match String.split_on_char ':' (rest 2) with
              | [c; f; k] -> SDropDb (parse_calls c, parse_calls f, pm_ok k) | _ -> failwith ("event " ^ s))
           else failwith ("event " ^ s)
  | _ -> failwith ("event " ^ s)
let parse_step_events (s : string) : sevent list =
  if s = "-" then [] else List.map parse_sev (String.split_on_char ',' s)
let fmt_tok (t : ltok) : string =
  let b x = if x then "1" else "0" and pm x = if x then "+" else "-" in
  match t with
  | LEnterOp (k, f, c) -> "e" ^ (match k with KOp -> "o" | KBest -> "b") ^ b f ^ b c
  | LEnterClose (f, c) -> "C" ^ b f ^ b c
  | LEnterDrop (f, c) -> "D" ^ b f ^ b c
  | LBack ok -> "B" ^ pm ok
  | LBackClose ok -> "X" ^ pm ok

let () =
  try
    while true do
      let line = input_line stdin in
      (match String.split_on_char ' ' line with
      | "T" :: _id :: ro :: len0 :: evs ->
        let ro = ro = "1" and len0 = n_of_hex len0 in
        let tr = List.map parse_ev (List.filter (fun s -> s <> "") evs) in
        let c = contract_okb ro len0 tr and p = prefix_okb ro len0 tr in
        let bad = match first_bad ro (m_init len0) tr N0 with Some i -> hex_of_n i | None -> "-" in
        Printf.printf "c=%s p=%s bad=%s\n" (b01 c) (b01 p) bad
      | ["LC"; d; cap; hdr; ps] ->
        print_endline (fmt_layout (dl_calculate (n_of_hex d) (n_of_hex cap) (n_of_hex hdr) (n_of_hex ps)))
      | ["LR"; fl; hdr; cap; ps] ->
        print_endline (fmt_layout (dl_recalculate (n_of_hex fl) (n_of_hex hdr) (n_of_hex cap) (n_of_hex ps)))
      | ["LB"; fl; hdr; cap; ps; r] ->
        let l = dl_recalculate (n_of_hex fl) (n_of_hex hdr) (n_of_hex cap) (n_of_hex ps) in
        print_endline (hex_of_n (dl_region_base l (n_of_hex r)))
      | ["LF"; fl; hdr; cap; ps] ->
        (match layout_from_file_len (n_of_hex fl) (n_of_hex hdr) (n_of_hex cap) (n_of_hex ps) with
         | Some _ -> print_endline "some" | None -> print_endline "none")
      | ["PA"; r; i; o; dso; rsize; rstart; ps] ->
        let p = { pn_region = n_of_hex r; pn_index = n_of_hex i; pn_order = n_of_hex o } in
        let (s, e) = address_range p (n_of_hex dso) (n_of_hex rsize) (n_of_hex rstart) (n_of_hex ps) in
        Printf.printf "%s %s\n" (hex_of_n s) (hex_of_n e)
      | ["U"; blen; nf; cap; hdr; ps; tr; r; i; o] ->
        let full = { rl_num_pages = n_of_hex cap; rl_header_pages = n_of_hex hdr; rl_page_size = n_of_hex ps } in
        let trailing = if tr = "-" then None
          else Some { rl_num_pages = n_of_hex tr; rl_header_pages = n_of_hex hdr; rl_page_size = n_of_hex ps } in
        let l = { dl_full = full; dl_num_full = n_of_hex nf; dl_trailing = trailing } in
        let p = { pn_region = n_of_hex r; pn_index = n_of_hex i; pn_order = n_of_hex o } in
        let (s, e) = mem_address_range l p in
        let inb = n_le (n_of_hex ps) s && n_le e (n_of_hex blen) in
        Printf.printf "valid=%s in=%s %s %s inb=%s\n" (b01 (valid_layoutb l)) (b01 (in_layoutb l p))
          (hex_of_n s) (hex_of_n e) (b01 inb)
      | "H" :: _id :: steps ->
        (try
          let steps = List.map parse_step_events (List.filter (fun s -> s <> "") steps) in
          (match model_steps s_new steps with
           | None -> print_endline "INVALID"
           | Some (obs, logs) ->
             let parts = List.map2 (fun (_, (c, a)) l ->
               let st = String.concat "" (List.map fmt_tok l) in
               Printf.sprintf "%d;%d;%s" (int_of_n c) (int_of_n a) (if st = "" then "-" else st)) obs logs in
             print_endline (String.concat " " parts))
        with Failure m -> print_endline ("BADLINE " ^ m))
      | "HT" :: _id :: steps ->
        (try
          let steps = List.map (fun s -> match String.split_on_char ';' s with
            | [evs; c; a] -> (parse_step_events evs, (n_of_int (int_of_string c), n_of_int (int_of_string a)))
            | _ -> failwith ("step " ^ s)) (List.filter (fun s -> s <> "") steps) in
          (match timing_check t_new steps N0 with
           | TOk -> print_endline "ok"
           | TBad i ->
             (* diagnostics: what the oracle expected after that step *)
             let k = int_of_n i in
             let rec upto j t l = match l with
               | [] -> t
               | (evs, _) :: r -> if j > k then t else
                   (match trun t evs with Some t' -> upto (j + 1) t' r | None -> t) in
             let t = upto 0 t_new steps in
             let (_, (c, a)) = List.nth steps k in
             Printf.printf "bad %s expected=%d observed=%d after=%d\n" (hex_of_n i)
               (int_of_n (expected_closes t)) (int_of_n c) (int_of_n a)
           | TMalformed i -> Printf.printf "malformed %s\n" (hex_of_n i))
        with Failure m -> print_endline ("BADLINE " ^ m))
      | _ -> print_endline "BADLINE")
    done
  with End_of_file -> ()
