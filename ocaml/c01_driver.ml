(* Line-protocol driver around the extracted C01 model (coq/Storage/{Backend,Header,Window}.v).

   usage:  c01_driver windows < windows.txt       > windows_model.txt
           c01_driver recover < recover_cases.txt > recover_model.txt

   windows.txt (written by harness/src/bin/c01.rs)
     T <tag> <page size>                                      start of a trace (a recorded operation stream)
     D <hdr hex 320> <len> <p> <vq> <vp> P<ranges> Q<=ranges|?> <vnew> <c0 hex> <c1 hex>
                                                              summary of the durable image before the window
       p ::= 0 | 1 | x   with x the star character: both slots hold the roots redb serves; resolved with
                         the model's recover (both commits verifying); c0/c1 = real XXH3 of the slot prefixes
       ranges ::= - | off:len,off:len,...
     O H <hex 320>    header write      O W <off> <len>   any other write      O L <n>   set_len
     E                                                        end of the window (the next sync_data)
   windows_model.txt
     W <tag> <index> ok
     W <tag> <index> REJECT <names of the failed conditions> [leaf=<god>/<class> ...]
     L <tag> <index> ok | BAD <what>       the summary agrees with what the previous window produces
                                            (next_hdr / next_len) and serves P or the slot that window wrote
   recover_cases.txt
     R <page size> <len> <hdr hex 320> <xxh3(slot0[..112]) hex> <xxh3(slot1[..112]) hex> <ver0> <ver1>
   recover_model.txt     S0 | S1 | S* (both slots hold the served bytes) | NONE
     H is instantiated with the real checksums of the two slot prefixes, expect with the walker's verdicts.
   Numbers stay the extracted inductive N: no OCaml int arithmetic on data that the model sees. *)
open C01_model

let rec pos_of_bits = function
  | [] -> failwith "pos_of_bits"
  | [true] -> XH
  | b :: r -> if b then XI (pos_of_bits r) else XO (pos_of_bits r)
let n_of_hex (s : string) : n =
  if s = "" then failwith "empty number";
  let bits = ref [] in
  String.iter (fun c ->
    let d = (match c with
      | '0'..'9' -> Char.code c - 48 | 'a'..'f' -> Char.code c - 87 | 'A'..'F' -> Char.code c - 55
      | _ -> failwith "hex digit") in
    bits := (d land 1 <> 0) :: (d land 2 <> 0) :: (d land 4 <> 0) :: (d land 8 <> 0) :: !bits) s;
  let rec strip_top = function false :: r -> strip_top r | l -> l in
  match strip_top (List.rev !bits) with [] -> N0 | l -> Npos (pos_of_bits (List.rev l))
let rec bits_of_pos = function XH -> [true] | XO p -> false :: bits_of_pos p | XI p -> true :: bits_of_pos p
let hex_of_n (x : n) : string =
  match x with N0 -> "0" | Npos p ->
    let bits = Array.of_list (bits_of_pos p) in
    let nb = Array.length bits in
    let nd = (nb + 3) / 4 in
    String.init nd (fun i ->
      let k = nd - 1 - i in
      let v = ref 0 in
      for j = 3 downto 0 do
        let idx = 4 * k + j in
        v := !v * 2 + (if idx < nb && bits.(idx) then 1 else 0) done;
      "0123456789abcdef".[!v])
let byte_tab : n array = Array.init 256 (fun i -> n_of_hex (Printf.sprintf "%x" i))
(* decimal text -> N, through OCaml's int only as a text converter (file offsets < 2^62) *)
let n_of_dec (s : string) : n = n_of_hex (Printf.sprintf "%x" (int_of_string s))
let bytes_of_hex s : n list =
  if s = "-" then [] else begin
    if String.length s mod 2 <> 0 then failwith "odd hex";
    List.init (String.length s / 2) (fun i -> byte_tab.(int_of_string ("0x" ^ String.sub s (2*i) 2)))
  end
let rec firstn_l k l = if k = 0 then [] else match l with [] -> [] | x :: r -> x :: firstn_l (k - 1) r

let parse_ranges (s : string) : (n * n) list =
  if s = "-" || s = "" then []
  else List.map (fun r ->
    match String.split_on_char ':' r with
    | [a; l] -> (n_of_dec a, n_of_dec l)
    | _ -> failwith ("range " ^ r)) (String.split_on_char ',' s)

let bool_of s = (s = "1")

(* ---- windows ---- *)
type pending = { tag : string; idx : int; d : dsum; vnew : bool; vp : bool; mutable ops : aop list }

let class_name = function QOld -> "old" | QNew -> "new" | QInvalid -> "invalid"

let check_window (w : pending) : string =
  let aw = List.rev w.ops in
  if window_okb w.d aw w.vnew && w.vp then "ok"
  else begin
    let fails = ref [] in
    let add n b = if not b then fails := n :: !fails in
    add "oracle:served-slot-checksum" w.vp;
    add "hdr-length" (List.length w.d.d_hdr = 320);
    add "w0-shape" (c_shape aw);
    add "w2-static" (c_static w.d aw);
    add "w2-uniform" (c_uniform w.d aw);
    add "versions" (c_versions w.d aw);
    add "w1-cow" (c_cow w.d aw);
    add "w4-lens" (c_lens w.d aw);
    add "w5-clean-flag" (c_rr w.d aw);
    add "w3w6-selection" (c_leaves w.d aw);
    add "new-slot-checksum" (c_new w.d aw w.vnew);
    let leaves = ref [] in
    if not (c_leaves w.d aw) then begin
      let classes = if bytes_eqb (wq w.d aw) (dQ w.d) then [QOld] else [QOld; QNew; QInvalid] in
      List.iter (fun gb -> List.iter (fun qc ->
        if not (leaf_ok w.d aw gb qc) then
          leaves := Printf.sprintf "leaf=%s/%s" (hex_of_n gb) (class_name qc) :: !leaves) classes)
        [dgod w.d; wgod w.d aw]
    end;
    "REJECT " ^ String.concat "," (List.rev !fails) ^ (if !leaves = [] then "" else " " ^ String.concat " " (List.rev !leaves))
  end

let run_windows () =
  let tag = ref "?" in
  let idx = ref 0 in
  let cur : pending option ref = ref None in
  (* what the previous window of the same trace produces *)
  let prev : (bytes * n * bytes * bytes) option ref = ref None in
  (try while true do
    let line = input_line stdin in
    match String.split_on_char ' ' line with
    | "T" :: t :: _ -> tag := t; idx := 0; prev := None; cur := None
    | ["D"; hdr; len; p; vq; vp; rp; rq; vnew; c0; c1] ->
        let rp = parse_ranges (String.sub rp 1 (String.length rp - 1)) in
        let rq = if rq = "Q?" then None else Some (parse_ranges (String.sub rq 2 (String.length rq - 2))) in
        let hb = bytes_of_hex hdr in
        let p =
          if p <> "*" then bool_of p
          else begin
            (* both slots carry the served roots: ask the model which slot recovery serves *)
            let g = hget hb in
            let img = { ilen = n_of_dec len; iat = g } in
            let s0 = slot_at g false and s1 = slot_at g true in
            let p0 = firstn_l 112 s0 and p1 = firstn_l 112 s1 in
            let k0 = bytes_of_hex c0 and k1 = bytes_of_hex c1 in
            let hfun x = if x = p0 then k0 else if x = p1 then k1 else [] in
            let expect _ = [] in
            (* byte-identical slots: either index satisfies image_ok; the primary is the one redb keeps *)
            if bytes_eqb s0 s1 then flag (god g) (n_of_dec "1") else
            match recover hfun expect (page_size_of g) img with
            | Some s -> if bytes_eqb s s0 then false else true
            | None -> flag (god g) (n_of_dec "1")
          end in
        let d = { d_hdr = hb; d_len = n_of_dec len; d_p = p; d_rp = rp;
                  d_vq = bool_of vq; d_rq = rq } in
        (match !prev with
         | None -> ()
         | Some (nh, nl, pP, pW) ->
             let bad = ref [] in
             if not (bytes_eqb d.d_hdr nh) then bad := "header" :: !bad;
             if not (N.eqb d.d_len nl) then bad := "length" :: !bad;
             if not (bytes_eqb (dP d) pP || bytes_eqb (dP d) pW) then bad := "served-slot" :: !bad;
             Printf.printf "L %s %d %s\n" !tag !idx
               (if !bad = [] then "ok" else "BAD " ^ String.concat "," (List.rev !bad)));
        cur := Some { tag = !tag; idx = !idx; d; vnew = bool_of vnew; vp = bool_of vp; ops = [] }
    | ["O"; "H"; h] ->
        (match !cur with Some w -> w.ops <- abs (Write (N0, bytes_of_hex h)) :: w.ops | None -> failwith "O outside window")
    | ["O"; "W"; off; len] ->
        (* abs (Write off data) = aop_of_write off (wlen data) unless it is a header write (off 0, 320 bytes),
           which the harness emits as "O H" *)
        if int_of_string off = 0 && int_of_string len = 320 then failwith "header write given as O W";
        (match !cur with Some w -> w.ops <- aop_of_write (n_of_dec off) (n_of_dec len) :: w.ops | None -> failwith "O outside window")
    | ["O"; "L"; nn] ->
        (match !cur with Some w -> w.ops <- abs (SetLen (n_of_dec nn)) :: w.ops | None -> failwith "O outside window")
    | ["E"] ->
        (match !cur with
         | Some w ->
             Printf.printf "W %s %d %s\n" w.tag w.idx (check_window w);
             let aw = List.rev w.ops in
             prev := Some (next_hdr w.d aw, next_len w.d aw, dP w.d, wq w.d aw);
             incr idx; cur := None
         | None -> failwith "E outside window")
    | [""] | [] -> ()
    | _ -> failwith ("bad line: " ^ (if String.length line > 60 then String.sub line 0 60 else line))
  done with End_of_file -> ())

(* ---- recover ---- *)
let run_recover () =
  (try while true do
    let line = input_line stdin in
    match String.split_on_char ' ' line with
    | ["R"; ps; len; hdr; c0; c1; v0; v1] ->
        let h = bytes_of_hex hdr in
        let g = hget h in
        let img = { ilen = n_of_dec len; iat = g } in
        let s0 = slot_at g false and s1 = slot_at g true in
        let p0 = firstn_l 112 s0 and p1 = firstn_l 112 s1 in
        let k0 = bytes_of_hex c0 and k1 = bytes_of_hex c1 in
        (* the checksum function, on the two inputs recovery evaluates it on: the real XXH3-128 values *)
        let hfun x = if x = p0 then k0 else if x = p1 then k1 else [] in
        (* Merkle walk verdicts of redb's own walker: empty page list = verifies, an out-of-file page = does not *)
        let bad = [ (img.ilen, [N0]) ] in
        let expect s =
          if s = s0 then (if bool_of v0 then [] else bad)
          else if s = s1 then (if bool_of v1 then [] else bad)
          else bad in
        (match recover hfun expect (n_of_dec ps) img with
         | None -> print_endline "NONE"
         | Some s ->
             let a = bytes_eqb s s0 and b = bytes_eqb s s1 in
             print_endline (if a && b then "S*" else if a then "S0" else if b then "S1" else "S?"))
    | [""] | [] -> ()
    | _ -> failwith "bad recover line"
  done with End_of_file -> ())

let () =
  match Sys.argv with
  | [| _; "windows" |] -> run_windows ()
  | [| _; "recover" |] -> run_recover ()
  | _ -> prerr_endline "usage: c01_driver windows|recover"; exit 2
