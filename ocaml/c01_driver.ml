(* Line-protocol driver around the extracted C01 model (coq/Storage/{Backend,Header,Window}.v).

   usage:  c01_driver windows  < windows.txt       > windows_model.txt
           c01_driver recover  < recover_cases.txt > recover_model.txt
           c01_driver protocol < protocol.txt      > protocol_model.txt

   protocol.txt (written by harness/src/bin/c01.rs): the REAL operation stream as protocol-level segments
     P <tag> <hdr hex 320> <len>          start of a trace: header and length of the image it starts from
     G <kind>                             create | open <p> <vq> | txn1 | txn2 | nd | abort | compact | close | gap
     O H <hex 320> | O W <off> <len> | O L <n> | O S          the operations the real crate issued
     E
   For every segment the extracted protocol model (coq/Storage/Protocol.v: run_step / recovery_run) is fed the
   abstract inputs -- the kind of the step (from the harness, NOT from the stream, for user transactions,
   close and open), the page writes, the new slot bytes, growth / shrink targets and region counts taken from
   the stream -- and the operations it emits are compared with the real ones: per sync window the sequence of
   header writes (all 320 bytes) and set_len calls, in order, and the SET of page writes (offset, length).
   A page write is handed to the model as (offset, [length]): the model is parametric in page contents, so
   the one-element "data" carries the length through unchanged (no megabyte lists).
   protocol_model.txt
     S <tag> <index> <kind> ok
     S <tag> <index> <kind> DIFF <what> | model=<abstract stream> | real=<abstract stream>

   windows.txt (written by harness/src/bin/c01.rs)
     T <tag> <page size>                                      start of a trace (a recorded operation stream)
     D <hdr hex 320> <len> <p> <vq> <vp> P<ranges> Q<=ranges|?> <vnew> <c0 hex> <c1 hex>
                                                              summary of the durable image before the window
       p ::= 0 | 1 | x   with x the star character: both slots hold the roots redb serves; resolved with
                         the model's recover (both commits verifying); c0/c1 = real XXH3 of the slot prefixes
       ranges ::= - | off:len,off:len,...
     O H <hex 320>    header write      O W <off> <len>   any other write      O L <n>   set_len
     E                                                        end of the window (the next sync_data)
   windows_model.txt
     W <tag> <index> ok
     W <tag> <index> REJECT <names of the failed conditions> [leaf=<god>/<class> ...]
     L <tag> <index> ok | BAD <what>       the summary agrees with what the previous window produces
                                            (next_hdr / next_len) and serves P or the slot that window wrote
   recover_cases.txt
     R <page size> <len> <hdr hex 320> <xxh3(slot0[..112]) hex> <xxh3(slot1[..112]) hex> <ver0> <ver1>
   recover_model.txt     S0 | S1 | S* (both slots hold the served bytes) | NONE
     H is instantiated with the real checksums of the two slot prefixes, expect with the walker's verdicts.
   Numbers stay the extracted inductive N: no OCaml int arithmetic on data that the model sees. *)
open C01_model

let rec pos_of_bits = function
  | [] -> failwith "pos_of_bits"
  | [true] -> XH
  | b :: r -> if b then XI (pos_of_bits r) else XO (pos_of_bits r)
let n_of_hex (s : string) : n =
  if s = "" then failwith "empty number";
  let bits = ref [] in
  String.iter (fun c ->
    let d = (match c with
      | '0'..'9' -> Char.code c - 48 | 'a'..'f' -> Char.code c - 87 | 'A'..'F' -> Char.code c - 55
      | _ -> failwith "hex digit") in
    bits := (d land 1 <> 0) :: (d land 2 <> 0) :: (d land 4 <> 0) :: (d land 8 <> 0) :: !bits) s;
  let rec strip_top = function false :: r -> strip_top r | l -> l in
  match strip_top (List.rev !bits) with [] -> N0 | l -> Npos (pos_of_bits (List.rev l))
let rec bits_of_pos = function XH -> [true] | XO p -> false :: bits_of_pos p | XI p -> true :: bits_of_pos p
let hex_of_n (x : n) : string =
  match x with N0 -> "0" | Npos p ->
    let bits = Array.of_list (bits_of_pos p) in
    let nb = Array.length bits in
    let nd = (nb + 3) / 4 in
    String.init nd (fun i ->
      let k = nd - 1 - i in
      let v = ref 0 in
      for j = 3 downto 0 do
        let idx = 4 * k + j in
        v := !v * 2 + (if idx < nb && bits.(idx) then 1 else 0) done;
      "0123456789abcdef".[!v])
let byte_tab : n array = Array.init 256 (fun i -> n_of_hex (Printf.sprintf "%x" i))
(* decimal text -> N, through OCaml's int only as a text converter (file offsets < 2^62) *)
let n_of_dec (s : string) : n = n_of_hex (Printf.sprintf "%x" (int_of_string s))
let bytes_of_hex s : n list =
  if s = "-" then [] else begin
    if String.length s mod 2 <> 0 then failwith "odd hex";
    List.init (String.length s / 2) (fun i -> byte_tab.(int_of_string ("0x" ^ String.sub s (2*i) 2)))
  end
let rec firstn_l k l = if k = 0 then [] else match l with [] -> [] | x :: r -> x :: firstn_l (k - 1) r

let parse_ranges (s : string) : (n * n) list =
  if s = "-" || s = "" then []
  else List.map (fun r ->
    match String.split_on_char ':' r with
    | [a; l] -> (n_of_dec a, n_of_dec l)
    | _ -> failwith ("range " ^ r)) (String.split_on_char ',' s)

let bool_of s = (s = "1")

(* ---- windows ---- *)
type pending = { tag : string; idx : int; d : dsum; vnew : bool; vp : bool; mutable ops : aop list }

let class_name = function QOld -> "old" | QNew -> "new" | QInvalid -> "invalid"

let check_window (w : pending) : string =
  let aw = List.rev w.ops in
  if window_okb w.d aw w.vnew && w.vp then "ok"
  else begin
    let fails = ref [] in
    let add n b = if not b then fails := n :: !fails in
    add "oracle:served-slot-checksum" w.vp;
    add "hdr-length" (List.length w.d.d_hdr = 320);
    add "w0-shape" (c_shape aw);
    add "w2-static" (c_static w.d aw);
    add "w2-uniform" (c_uniform w.d aw);
    add "versions" (c_versions w.d aw);
    add "w1-cow" (c_cow w.d aw);
    add "w4-lens" (c_lens w.d aw);
    add "w5-clean-flag" (c_rr w.d aw);
    add "w3w6-selection" (c_leaves w.d aw);
    add "new-slot-checksum" (c_new w.d aw w.vnew);
    let leaves = ref [] in
    if not (c_leaves w.d aw) then begin
      let classes = if bytes_eqb (wq w.d aw) (dQ w.d) then [QOld] else [QOld; QNew; QInvalid] in
      List.iter (fun gb -> List.iter (fun qc ->
        if not (leaf_ok w.d aw gb qc) then
          leaves := Printf.sprintf "leaf=%s/%s" (hex_of_n gb) (class_name qc) :: !leaves) classes)
        [dgod w.d; wgod w.d aw]
    end;
    "REJECT " ^ String.concat "," (List.rev !fails) ^ (if !leaves = [] then "" else " " ^ String.concat " " (List.rev !leaves))
  end

let run_windows () =
  let tag = ref "?" in
  let idx = ref 0 in
  let cur : pending option ref = ref None in
  (* what the previous window of the same trace produces *)
  let prev : (bytes * n * bytes * bytes) option ref = ref None in
  (try while true do
    let line = input_line stdin in
    match String.split_on_char ' ' line with
    | "T" :: t :: _ -> tag := t; idx := 0; prev := None; cur := None
    | ["D"; hdr; len; p; vq; vp; rp; rq; vnew; c0; c1] ->
        let rp = parse_ranges (String.sub rp 1 (String.length rp - 1)) in
        let rq = if rq = "Q?" then None else Some (parse_ranges (String.sub rq 2 (String.length rq - 2))) in
        let hb = bytes_of_hex hdr in
        let p =
          if p <> "*" then bool_of p
          else begin
            (* both slots carry the served roots: ask the model which slot recovery serves *)
            let g = hget hb in
            let img = { ilen = n_of_dec len; iat = g } in
            let s0 = slot_at g false and s1 = slot_at g true in
            let p0 = firstn_l 112 s0 and p1 = firstn_l 112 s1 in
            let k0 = bytes_of_hex c0 and k1 = bytes_of_hex c1 in
            let hfun x = if x = p0 then k0 else if x = p1 then k1 else [] in
            let expect _ = [] in
            (* byte-identical slots: either index satisfies image_ok; the primary is the one redb keeps *)
            if bytes_eqb s0 s1 then flag (god g) (n_of_dec "1") else
            match recover hfun expect (page_size_of g) img with
            | Some s -> if bytes_eqb s s0 then false else true
            | None -> flag (god g) (n_of_dec "1")
          end in
        let d = { d_hdr = hb; d_len = n_of_dec len; d_p = p; d_rp = rp;
                  d_vq = bool_of vq; d_rq = rq } in
        (match !prev with
         | None -> ()
         | Some (nh, nl, pP, pW) ->
             let bad = ref [] in
             if not (bytes_eqb d.d_hdr nh) then bad := "header" :: !bad;
             if not (N.eqb d.d_len nl) then bad := "length" :: !bad;
             if not (bytes_eqb (dP d) pP || bytes_eqb (dP d) pW) then bad := "served-slot" :: !bad;
             Printf.printf "L %s %d %s\n" !tag !idx
               (if !bad = [] then "ok" else "BAD " ^ String.concat "," (List.rev !bad)));
        cur := Some { tag = !tag; idx = !idx; d; vnew = bool_of vnew; vp = bool_of vp; ops = [] }
    | ["O"; "H"; h] ->
        (match !cur with Some w -> w.ops <- abs (Write (N0, bytes_of_hex h)) :: w.ops | None -> failwith "O outside window")
    | ["O"; "W"; off; len] ->
        (* abs (Write off data) = aop_of_write off (wlen data) unless it is a header write (off 0, 320 bytes),
           which the harness emits as "O H" *)
        if int_of_string off = 0 && int_of_string len = 320 then failwith "header write given as O W";
        (match !cur with Some w -> w.ops <- aop_of_write (n_of_dec off) (n_of_dec len) :: w.ops | None -> failwith "O outside window")
    | ["O"; "L"; nn] ->
        (match !cur with Some w -> w.ops <- abs (SetLen (n_of_dec nn)) :: w.ops | None -> failwith "O outside window")
    | ["E"] ->
        (match !cur with
         | Some w ->
             Printf.printf "W %s %d %s\n" w.tag w.idx (check_window w);
             let aw = List.rev w.ops in
             prev := Some (next_hdr w.d aw, next_len w.d aw, dP w.d, wq w.d aw);
             incr idx; cur := None
         | None -> failwith "E outside window")
    | [""] | [] -> ()
    | _ -> failwith ("bad line: " ^ (if String.length line > 60 then String.sub line 0 60 else line))
  done with End_of_file -> ())

(* ---- recover ---- *)
let run_recover () =
  (try while true do
    let line = input_line stdin in
    match String.split_on_char ' ' line with
    | ["R"; ps; len; hdr; c0; c1; v0; v1] ->
        let h = bytes_of_hex hdr in
        let g = hget h in
        let img = { ilen = n_of_dec len; iat = g } in
        let s0 = slot_at g false and s1 = slot_at g true in
        let p0 = firstn_l 112 s0 and p1 = firstn_l 112 s1 in
        let k0 = bytes_of_hex c0 and k1 = bytes_of_hex c1 in
        (* the checksum function, on the two inputs recovery evaluates it on: the real XXH3-128 values *)
        let hfun x = if x = p0 then k0 else if x = p1 then k1 else [] in
        (* Merkle walk verdicts of redb's own walker: empty page list = verifies, an out-of-file page = does not *)
        let bad = [ (img.ilen, [N0]) ] in
        let expect s =
          if s = s0 then (if bool_of v0 then [] else bad)
          else if s = s1 then (if bool_of v1 then [] else bad)
          else bad in
        (match recover hfun expect (n_of_dec ps) img with
         | None -> print_endline "NONE"
         | Some s ->
             let a = bytes_eqb s s0 and b = bytes_eqb s s1 in
             print_endline (if a && b then "S*" else if a then "S0" else if b then "S1" else "S?"))
    | [""] | [] -> ()
    | _ -> failwith "bad recover line"
  done with End_of_file -> ())


(* ---- protocol: the extracted protocol model against the real operation stream ---- *)
type rop = RH of n list | RW of n * n | RL of n | RS

let hex_of_bytes (b : n list) : string =
  String.concat "" (List.map (fun x -> let h = hex_of_n x in if String.length h = 1 then "0" ^ h else h) b)

(* a stream cut at its syncs: per window the header writes / set_len calls in order and the sorted page set;
   the last element is the (possibly empty) unsynced tail *)
type awin = { nonpage : string list; pageset : (string * string) list; synced : bool }

let abs_stream (ops : rop list) : awin list =
  let fin np pg synced = { nonpage = List.rev np; pageset = List.sort compare pg; synced } in
  let rec go np pg acc = function
    | [] -> List.rev (if np = [] && pg = [] then acc else fin np pg false :: acc)
    | RS :: r -> go [] [] (fin np pg true :: acc) r
    | RH h :: r -> go (("H:" ^ hex_of_bytes h) :: np) pg acc r
    | RL x :: r -> go (("L:" ^ hex_of_n x) :: np) pg acc r
    | RW (o, l) :: r -> go np ((hex_of_n o, hex_of_n l) :: pg) acc r in
  go [] [] [] ops

let rop_of_op (o : op) : rop =
  match o with
  | Sync -> RS
  | SetLen x -> RL x
  | Write (off, data) ->
      if off = N0 && List.length data = 320 then RH data
      else (match data with [l] -> RW (off, l) | _ -> RW (off, n_of_dec (string_of_int (List.length data))))

let show_stream (ws : awin list) : string =
  let god h = if String.length h >= 22 then String.sub h 20 2 else "??" in
  String.concat " " (List.map (fun w ->
    String.concat "," (List.map (fun s -> if String.length s > 2 && String.sub s 0 2 = "H:" then "H" ^ god s else s) w.nonpage)
    ^ (if w.pageset = [] then "" else Printf.sprintf "+%dp" (List.length w.pageset))
    ^ (if w.synced then ";S" else ";-")) ws)

let first_stream_diff (m : awin list) (r : awin list) : string option =
  let rec go i m r = match m, r with
    | [], [] -> None
    | [], _ -> Some (Printf.sprintf "the real stream has %d more window(s) from window %d on" (List.length r) i)
    | _, [] -> Some (Printf.sprintf "the model emits %d more window(s) from window %d on" (List.length m) i)
    | a :: m', b :: r' ->
        if a.synced <> b.synced then Some (Printf.sprintf "window %d: sync_data %s" i (if a.synced then "missing in the real stream" else "only in the real stream"))
        else if a.nonpage <> b.nonpage then begin
          let rec fd j x y = match x, y with
            | [], [] -> "?"
            | [], s :: _ -> Printf.sprintf "extra real op %d: %s" j (String.sub s 0 (min 24 (String.length s)))
            | s :: _, [] -> Printf.sprintf "missing real op %d: %s" j (String.sub s 0 (min 24 (String.length s)))
            | s :: x', t :: y' ->
                if s = t then fd (j + 1) x' y'
                else if String.length s = String.length t && String.length s > 600 then begin
                  let k = ref 0 in
                  while !k < String.length s && s.[!k] = t.[!k] do incr k done;
                  Printf.sprintf "header write %d differs at byte %d (model %s real %s)" j ((!k - 2) / 2)
                    (String.sub s (2 + 2 * ((!k - 2) / 2)) 2) (String.sub t (2 + 2 * ((!k - 2) / 2)) 2)
                end else Printf.sprintf "op %d: model %s real %s" j (String.sub s 0 (min 24 (String.length s))) (String.sub t 0 (min 24 (String.length t))) in
          Some (Printf.sprintf "window %d: %s" i (fd 0 a.nonpage b.nonpage))
        end
        else if a.pageset <> b.pageset then Some (Printf.sprintf "window %d: page writes differ (model %d, real %d)" i (List.length a.pageset) (List.length b.pageset))
        else go (i + 1) m' r' in
  go 0 m r

let sub_bytes (l : n list) (off : int) (len : int) : n list =
  let a = Array.of_list l in
  if Array.length a < off + len then [] else Array.to_list (Array.sub a off len)
let hdr_layout (h : n list) = sub_bytes h 24 8
let hdr_slot (h : n list) (k : bool) = sub_bytes h (if k then 192 else 64) 128
let hdr_god (h : n list) : n = match sub_bytes h 9 1 with [g] -> g | _ -> N0
let prim_of_god (g : n) : bool = flag g (n_of_dec "1")

(* real windows of a segment: ops up to and including each sync, then the unsynced tail *)
let cut_windows (ops : rop list) : rop list list * rop list =
  let rec go cur acc = function
    | [] -> (List.rev acc, List.rev cur)
    | RS :: r -> go [] (List.rev cur :: acc) r
    | o :: r -> go (o :: cur) acc r in
  go [] [] ops

(* feed one segment to the model: returns the model's state afterwards and the operations it emitted *)
let feed_segment (st : pst) (kind : string list) (real : rop list) (later_layout : n list option) : pst * op list * string option =
  let pages_of w = List.filter_map (function RW (o, l) -> Some (o, [l]) | _ -> None) w in
  let hdrs_of w = List.filter_map (function RH h -> Some h | _ -> None) w in
  let all_hdrs = hdrs_of real in
  match kind with
  | "open" :: p :: vq :: rest ->
      if p = "?" then (st, [], Some "the roots the real crate serves belong to neither slot") else begin
        let d0 = st.p_d in
        (* "open * v0 v1": both slots name the same trees; the served index is the one slot selection ends with *)
        let (pb, vqb) =
          if p <> "*" then (bool_of p, bool_of vq) else begin
            let v0 = bool_of vq and v1 = (match rest with x :: _ -> bool_of x | [] -> false) in
            let m0 = parse_hdr d0.d_hdr in
            let v k = if k then v1 else v0 in
            match select_primary m0 (v m0.hm_prim) (v (not m0.hm_prim)) with
            | Some m1 -> (m1.hm_prim, v (not m1.hm_prim))
            | None -> (m0.hm_prim, v (not m0.hm_prim))
          end in
        let d = { d_hdr = d0.d_hdr; d_len = cur_len st; d_p = pb; d_rp = []; d_vq = vqb; d_rq = None } in
        let lay = match all_hdrs with h :: _ -> hdr_layout h | [] -> layout_at (hget d0.d_hdr) in
        let q = match List.rev all_hdrs with h :: _ -> hdr_slot h (prim_of_god (hdr_god h)) | [] -> [] in
        let o = { ro_lay = lay; ro_quick = List.length all_hdrs <= 2; ro_q = q } in
        match recovery_run d o with
        | None -> (st, [], Some "the model's open fails (recovery_run = None) but the real crate opened the image")
        | Some a -> (a.a_st, a.a_ops, None)
      end
  | k :: _ ->
      let (wins, tail) = cut_windows real in
      let wins_a = Array.of_list wins in
      let nw = Array.length wins_a in
      let st = ref st in
      let out = ref [] in
      let note = ref None in
      let commits = ref 0 in
      let skip_hdr_windows = ref 0 in      (* windows that belong to a commit already fed (phase 2, close) *)
      let step s = let a = run_step !st s in st := a.a_st; out := !out @ a.a_ops in
      (* the layout the next header write carries (what grow / try_shrink computed) *)
      let next_layout_from i =
        let rec find j = if j >= nw then (match hdrs_of tail with h :: _ -> Some (hdr_layout h) | [] -> later_layout)
          else match hdrs_of wins_a.(j) with h :: _ -> Some (hdr_layout h) | [] -> find (j + 1) in
        match find i with Some l -> l | None -> (!st).p_mem.hm_layout in
      let first_op_after i = if i + 1 < nw then (match wins_a.(i + 1) with o :: _ -> Some o | [] -> Some RS)
                             else (match tail with o :: _ -> Some o | [] -> None) in
      let feed_plain i w =
        (* page writes: eviction; growing set_len: grow(); a shrinking set_len was issued by the commit before *)
        let pg = pages_of w in
        if pg <> [] then step (PEvict pg);
        List.iter (function
          | RL x when N.ltb (cur_len !st) x -> step (PGrow (x, next_layout_from i))
          | _ -> ()) w in
      for i = 0 to nw - 1 do
        let w = wins_a.(i) in
        match hdrs_of w with
        | [] -> feed_plain i w
        | h :: _ ->
            if !skip_hdr_windows > 0 then begin
              decr skip_hdr_windows;
              let pg = pages_of w in if pg <> [] then step (PEvict pg)
            end else begin
              let pg = pages_of w in
              if pg <> [] then step (PEvict pg);
              incr commits;
              let m = (!st).p_mem in
              (* which kind of commit: told by the harness for user transactions and close; for the internal
                 commits of compact() read off the god byte (unchanged = first phase of a two-phase commit) *)
              let two = (match k with
                | "txn1" -> false | "txn2" | "close" -> true
                | _ -> N.eqb (hdr_god h) (hm_god m)) in
              let q = hdr_slot h (not m.hm_prim) in
              let last = if two then i + 1 else i in
              let shrink = (match first_op_after last with
                | Some (RL x) when N.ltb x (cur_len !st) -> Some (x, hdr_layout h)
                | _ -> None) in
              if two then skip_hdr_windows := 1;
              if k = "close" then begin
                skip_hdr_windows := 3;
                step (PClose (q, [], [], shrink))
              end else step (PCommit (two, q, [], [], shrink))
            end
      done;
      (let pg = pages_of tail in if pg <> [] then step (PEvict pg));
      (match k with
       | "txn1" | "txn2" | "close" -> if !commits <> 1 then note := Some (Printf.sprintf "%d commits in a segment that must hold exactly one" !commits)
       | "nd" | "abort" | "gap" -> if !commits <> 0 then note := Some "header writes outside a durable commit"
       | _ -> ());
      (* a non-durable commit leaves the header in memory only *)
      (!st, !out, !note)
  | [] -> (st, [], Some "empty segment kind")

let run_protocol () =
  (* read everything, trace by trace *)
  let traces = ref [] in
  let cur_tag = ref "" and cur_hdr = ref [] and cur_len0 = ref N0 in
  let segs = ref [] in
  let seg_kind = ref [] and seg_ops = ref [] in
  let flush_trace () = if !cur_tag <> "" then traces := (!cur_tag, !cur_hdr, !cur_len0, List.rev !segs) :: !traces; segs := [] in
  (try while true do
    let line = input_line stdin in
    match String.split_on_char ' ' line with
    | ["P"; t; h; l] -> flush_trace (); cur_tag := t; cur_hdr := bytes_of_hex h; cur_len0 := n_of_dec l
    | "G" :: k -> seg_kind := k; seg_ops := []
    | ["O"; "H"; h] -> seg_ops := RH (bytes_of_hex h) :: !seg_ops
    | ["O"; "W"; o; l] -> seg_ops := RW (n_of_dec o, n_of_dec l) :: !seg_ops
    | ["O"; "L"; x] -> seg_ops := RL (n_of_dec x) :: !seg_ops
    | ["O"; "S"] -> seg_ops := RS :: !seg_ops
    | ["E"] -> segs := (!seg_kind, List.rev !seg_ops) :: !segs
    | [""] | [] -> ()
    | _ -> failwith "bad protocol line"
  done with End_of_file -> ());
  flush_trace ();
  List.iter (fun (tag, hdr, len0, segs) ->
    let m0 = parse_hdr hdr in
    let d0 = { d_hdr = hdr; d_len = len0; d_p = m0.hm_prim; d_rp = []; d_vq = true; d_rq = None } in
    let st = ref { p_d = d0; p_win = []; p_mem = m0; p_rfs = false; p_open = m0.hm_rr } in
    let broken = ref false in
    let segs_a = Array.of_list segs in
    Array.iteri (fun i (kind, real) ->
      let kname = String.concat "_" kind in
      if !broken then Printf.printf "S %s %d %s skipped (after a difference in this trace)\n" tag i kname
      else begin
        (* layout bytes of the next header write in a later segment (a grow() whose layout is first written by a later commit) *)
        let later = (let r = ref None in
          for j = Array.length segs_a - 1 downto i + 1 do
            (match List.filter_map (function RH h -> Some h | _ -> None) (snd segs_a.(j)) with h :: _ -> r := Some (hdr_layout h) | [] -> ())
          done; !r) in
        let pending_before = List.map rop_of_op (!st).p_win in
        let (st', mops, note) = (try feed_segment !st kind real later with Failure e -> (!st, [], Some ("driver: " ^ e))) in
        ignore pending_before;
        let ms = abs_stream (List.map rop_of_op mops) and rs = abs_stream real in
        let verdict = match note with
          | Some w -> Some w
          | None -> first_stream_diff ms rs in
        (match verdict with
         | None -> Printf.printf "S %s %d %s ok\n" tag i kname
         | Some w ->
             broken := true;
             Printf.printf "S %s %d %s DIFF %s | model=%s | real=%s\n" tag i kname w (show_stream ms) (show_stream rs));
        st := st'
      end) segs_a) (List.rev !traces)

let () =
  match Sys.argv with
  | [| _; "windows" |] -> run_windows ()
  | [| _; "recover" |] -> run_recover ()
  | [| _; "protocol" |] -> run_protocol ()
  | _ -> prerr_endline "usage: c01_driver windows|recover|protocol"; exit 2
