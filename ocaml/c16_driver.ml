(* Line-protocol driver around the extracted C16 model (coq/Conc/Shared.v).
   input (cases.txt):  id|kind|pre|end|programs|log        log entry = <tid>:E<call>:<locked> | <tid>:@<pause point>:<locked>
   output:             id|<tid>:<call>=<result> ...|tracking=Track|Ignore dirty=0|1|T<tb>=<len>:<digest> ...
                       or  id|MODEL-STUCK at <entry> / LOCK-MISMATCH at <entry>  *)
open C16_model

let rec pos_of_int i = if i = 1 then XH else if i land 1 = 1 then XI (pos_of_int (i lsr 1)) else XO (pos_of_int (i lsr 1))
let n_of_int i = if i = 0 then N0 else Npos (pos_of_int i)
let rec int_of_pos = function XH -> 1 | XO p -> 2 * int_of_pos p | XI p -> 2 * int_of_pos p + 1
let int_of_n = function N0 -> 0 | Npos p -> int_of_pos p
let rec nat_of_int i = if i = 0 then O else S (nat_of_int (i - 1))
let rec int_of_nat = function O -> 0 | S n -> 1 + int_of_nat n

let call_of (c : string) : scall =
  let body = String.sub c 1 (String.length c - 1) in
  let nums = List.map (fun x -> n_of_int (int_of_string x)) (String.split_on_char '.' body) in
  match c.[0], nums with
  | 'O', [t] -> SOpen t
  | 'P', [t; k; v] -> SPut (t, k, v)
  | 'D', [t; k] -> SDel (t, k)
  | 'C', [t] -> SClose t
  | 'S', [h] -> SSavepoint h
  | 'R', [h] -> SDropSavepoint h
  | _ -> failwith ("call " ^ c)
let call_s = function
  | SOpen t -> Printf.sprintf "O%d" (int_of_n t)
  | SPut (t, k, v) -> Printf.sprintf "P%d.%d.%d" (int_of_n t) (int_of_n k) (int_of_n v)
  | SDel (t, k) -> Printf.sprintf "D%d.%d" (int_of_n t) (int_of_n k)
  | SClose t -> Printf.sprintf "C%d" (int_of_n t)
  | SSavepoint h -> Printf.sprintf "S%d" (int_of_n h)
  | SDropSavepoint h -> Printf.sprintf "R%d" (int_of_n h)
let name_of = function
  | "X.set_dirty" -> NSetDirty | "X.set_dirty.stored" -> NSetDirtyStored | "T.any_savepoint" -> NAnySavepoint
  | "X.esp" -> NEsp | "X.esp.locked" -> NEspLocked | "T.register_read" -> NRegisterRead
  | "T.alloc_savepoint" -> NAllocSavepoint | "X.esp.unlocked" -> NEspUnlocked | "M.get_data_root" -> NGetDataRoot
  | "M.get_version" -> NGetVersion | "T.dealloc_savepoint" -> NDeallocSavepoint | "T.dealloc_read" -> NDeallocRead
  | s -> failwith ("pause point " ^ s)
let res_s = function SOk -> "ok" | SErrDirty -> "dirty" | SErrOpen -> "already-open"

let () =
  try
    while true do
      let line = input_line stdin in
      match String.split_on_char '|' line with
      | [id; _kind; pre; fin; progs; log] ->
        (* the harness seeds every table with an even number (normal tables: rows k -> 1000+k for k < 40) *)
        let tabs0 = List.sort_uniq compare
            (List.concat_map (fun p -> List.filter_map (fun c ->
                 if c <> "" && c.[0] = 'O' then Some (int_of_string (String.sub c 1 (String.length c - 1))) else None)
                 (String.split_on_char ',' p)) (String.split_on_char ';' progs)) in
        let seeds = List.filter_map (fun tb -> if tb < 100 && tb mod 2 = 0
                      then Some (n_of_int tb, List.init 40 (fun k -> (n_of_int k, n_of_int (1000 + k)))) else None) tabs0 in
        let st = ref (sinit_tables (if pre = "1" then [n_of_int 900] else []) seeds) in
        let err = ref None in
        List.iter (fun e ->
          if !err = None && e <> "" then begin
            match String.split_on_char ':' e with
            | [t; lab; locked] ->
              let l = if lab.[0] = 'E' then LEnter (call_of (String.sub lab 1 (String.length lab - 1)))
                      else LSec (name_of (String.sub lab 1 (String.length lab - 1))) in
              if lock_free !st <> (locked = "0") then err := Some ("LOCK-MISMATCH at " ^ e)
              else (match sstep (nat_of_int (int_of_string t)) l !st with
                    | Some s' -> st := s'
                    | None -> err := Some ("MODEL-STUCK at " ^ e))
            | _ -> err := Some ("BAD " ^ e)
          end) (String.split_on_char ' ' log);
        (match !err with
         | Some m -> Printf.printf "%s|%s\n" id m
         | None ->
           let s = !st in
           let rs = List.rev_map (fun ((t, c), r) -> Printf.sprintf "%d:%s=%s" (int_of_nat t) (call_s c) (res_s r)) s.s_results in
           let tabs = List.sort_uniq compare
               (List.concat_map (fun p -> List.filter_map (fun c ->
                    if c <> "" && c.[0] = 'O' then Some (int_of_string (String.sub c 1 (String.length c - 1))) else None)
                    (String.split_on_char ',' p)) (String.split_on_char ';' progs)) in
           let digests = if fin = "2" then [] else
               List.filter_map (fun tb -> if tb >= 100 then None else begin
                 let m = table_map s (n_of_int tb) in
                 let h = List.fold_left (fun h (k, v) -> (h * 31 + int_of_n k * 1009 + int_of_n v) mod 1_000_000_007) 0 m in
                 Some (Printf.sprintf "T%d=%d:%d" tb (List.length m) h) end) tabs in
           Printf.printf "%s|%s|tracking=%s dirty=%d|%s\n" id (String.concat " " rs)
             (if s.s_tracking then "Track" else "Ignore") (if s.s_dirty then 1 else 0) (String.concat " " digests))
      | _ -> print_endline "BADLINE"
    done
  with End_of_file -> ()
