(* Line-protocol driver around the extracted C16 model (coq/Conc/Shared.v).
   input (cases.txt):  id|kind|pre|end|programs|log        log entry = <tid>:E<call>:<locked> | <tid>:@<pause point>:<locked>
   output:             id|<tid>:<call>=<result> ...|tracking=Track|Ignore dirty=0|1|T<tb>=<len>:<digest> ...
                       or  id|MODEL-STUCK at <entry> / LOCK-MISMATCH at <entry>  *)
open C16_model

let rec pos_of_int i = if i = 1 then XH else if i land 1 = 1 then XI (pos_of_int (i lsr 1)) else XO (pos_of_int (i lsr 1))
let n_of_int i = if i = 0 then N0 else Npos (pos_of_int i)
let rec int_of_pos = function XH -> 1 | XO p -> 2 * int_of_pos p | XI p -> 2 * int_of_pos p + 1
let int_of_n = function N0 -> 0 | Npos p -> int_of_pos p
let rec nat_of_int i = if i = 0 then O else S (nat_of_int (i - 1))
let rec int_of_nat = function O -> 0 | S n -> 1 + int_of_nat n

let call_of (c : string) : scall =
  let body = String.sub c 1 (String.length c - 1) in
  let nums = List.map (fun x -> n_of_int (int_of_string x)) (String.split_on_char '.' body) in
  match c.[0], nums with
  | 'O', [t] -> SOpen t
  | 'P', [t; k; v] -> SPut (t, k, v)
  | 'D', [t; k] -> SDel (t, k)
  | 'C', [t] -> SClose t
  | 'S', [h] -> SSavepoint h
  | 'R', [h] -> SDropSavepoint h
  | _ -> failwith ("call " ^ c)
let call_s = function
  | SOpen t -> Printf.sprintf "O%d" (int_of_n t)
  | SPut (t, k, v) -> Printf.sprintf "P%d.%d.%d" (int_of_n t) (int_of_n k) (int_of_n v)
  | SDel (t, k) -> Printf.sprintf "D%d.%d" (int_of_n t) (int_of_n k)
  | SClose t -> Printf.sprintf "C%d" (int_of_n t)
  | SSavepoint h -> Printf.sprintf "S%d" (int_of_n h)
  | SDropSavepoint h -> Printf.sprintf "R%d" (int_of_n h)
  | _ -> "?"
let name_of = function
  | "X.set_dirty" -> NSetDirty | "X.set_dirty.stored" -> NSetDirtyStored | "T.any_savepoint" -> NAnySavepoint
  | "X.esp" -> NEsp | "X.esp.locked" -> NEspLocked | "T.register_read" -> NRegisterRead
  | "T.alloc_savepoint" -> NAllocSavepoint | "X.esp.unlocked" -> NEspUnlocked | "M.get_data_root" -> NGetDataRoot
  | "M.get_version" -> NGetVersion | "T.dealloc_savepoint" -> NDeallocSavepoint | "T.dealloc_read" -> NDeallocRead
  | "X.psp.system" -> NPspSys | "X.psp.system.locked" -> NPspSysLocked
  | s -> failwith ("pause point " ^ s)
let res_s = function SOk -> "ok" | SErrDirty -> "dirty" | SErrOpen -> "already-open"


(* ------------------------------------------------------------------------------------------------------------
   mode `cg` (cg_cases.txt -> cg_model.txt): the commit-gap schedules replayed grant by grant on the extracted
   Conc/CommitGap.v.
   input:  id|kind|txid=|last=|live=id:cnt,..|valid=sp:txn,..|pending=id:anc,..|freed=txn:p.p;..|alloc=txn:p.p;..|
           allocated=p.p|ownfreed=p.p|ownalloc=p.p|drop=sp:txn|grants=<tid>><pause point or done> ...
   The committer's own DATA_FREED / DATA_ALLOCATED records are written after the snapshot was taken: whether they
   exist is not observable beforehand, so the model is run for each possibility (own freed record present: forced when the
   transaction had unlinked committed pages already; own allocated record present) and prints one line per variant:
           id|V<f><a>|last=|live=|valid=|pending=|freed=keys|alloc=keys|#diagnostics
           or id|V<f><a>|WF-FAIL / MODEL-... at <grant> *)
let field (name : string) (f : string) : string =
  let pre = name ^ "=" in
  let lp = String.length pre in
  if String.length f >= lp && String.sub f 0 lp = pre then String.sub f lp (String.length f - lp) else failwith ("field " ^ name ^ " in " ^ f)
let split_ne c s = List.filter (fun x -> x <> "") (String.split_on_char c s)
let pair_list s = List.map (fun e -> match String.split_on_char ':' e with
    | [a; b] -> (int_of_string a, int_of_string b) | _ -> failwith ("pair " ^ e)) (split_ne ',' s)
let table_of s = List.map (fun e -> match String.split_on_char ':' e with
    | [k; ps] -> (int_of_string k, List.map int_of_string (split_ne '.' ps)) | _ -> failwith ("entry " ^ e)) (split_ne ';' s)
let rec remove_one x = function [] -> None | y :: r -> if x = y then Some r else (match remove_one x r with Some r' -> Some (y :: r') | None -> None)
let pause_of = function
  | GOldestLive1 | GOldestLive2 -> "T.oldest_live_read" | GHorizon -> "X.durable_commit.horizon" | GOldestSp -> "T.oldest_savepoint"
  | GCommitBegin -> "M.commit.begin" | GUClear -> "U.clear" | GPublish -> "M.commit.publish" | GClearPending -> "T.clear_pending_nd"
  | GInvalidate -> "T.invalidate_savepoints" | GEpiHorizon -> "X.epilogue.horizon" | GUExtend -> "U.extend" | GNdPublish -> "M.nd.publish"
  | GReserveId -> "T.reserve_id" | GRegisterNd -> "T.register_nd" | GEndWrite -> "T.end_write"
  | GDeallocSp -> "T.dealloc_savepoint" | GDeallocRead -> "T.dealloc_read"
  | GRegisterRead -> "T.register_read" | GReadRegistered -> "X.begin_read.registered" | GDeallocReadTx -> "T.dealloc_read"
let counts (l : int list) : string =
  let l = List.sort compare l in
  let rec go acc = function
    | [] -> List.rev acc
    | x :: r -> (match acc with (y, c) :: a when y = x -> go ((y, c + 1) :: a) r | _ -> go ((x, 1) :: acc) r) in
  String.concat "," (List.map (fun (a, b) -> Printf.sprintf "%d:%d" a b) (go [] l))
let keys (t : (n * n list) list) : string =
  String.concat "," (List.map string_of_int (List.sort_uniq compare (List.map (fun (k, _) -> int_of_n k) t)))
let pairs (l : (n * n) list) : string = String.concat "," (List.map (fun (a, b) -> Printf.sprintf "%d:%d" (int_of_n a) (int_of_n b)) l)
let nl = List.map n_of_int
let ntab = List.map (fun (k, ps) -> (n_of_int k, nl ps))
let pseudo_f = 1 lsl 60
let pseudo_a = (1 lsl 60) + 1

let cg_line (line : string) : unit =
  match String.split_on_char '|' line with
  | [id; _kind; txid; last; live; valid; pending; freed; alloc; allocated; ownfreed; ownalloc; drop; grants] ->
    let txid = int_of_string (field "txid" txid) and last = int_of_string (field "last" last) in
    let live = List.concat_map (fun (i, c) -> List.init c (fun _ -> i)) (pair_list (field "live" live)) in
    let valid = pair_list (field "valid" valid) and pending = pair_list (field "pending" pending) in
    let freed = table_of (field "freed" freed) and alloc = table_of (field "alloc" alloc) in
    let allocated = List.map int_of_string (split_ne '.' (field "allocated" allocated)) in
    let ownfreed = List.map int_of_string (split_ne '.' (field "ownfreed" ownfreed)) in
    let ownalloc = List.map int_of_string (split_ne '.' (field "ownalloc" ownalloc)) in
    let drop = pair_list (field "drop" drop) in
    let grants = split_ne ' ' (field "grants" grants) in
    (* every pin has an owner: a pending non-durable commit, a valid savepoint, or somebody who keeps it *)
    let owned = List.map snd pending @ List.map snd valid in
    let held = List.fold_left (fun acc x -> match acc with None -> None | Some l -> remove_one x l) (Some live) owned in
    let variants = List.concat_map (fun f -> List.map (fun a -> (f, a)) [true; false]) (if ownfreed <> [] then [true] else [true; false]) in
    List.iter (fun (f, a) ->
      let tag = Printf.sprintf "%s|V%d%d" id (if f then 1 else 0) (if a then 1 else 0) in
      match held with
      | None -> Printf.printf "%s|WF-FAIL a valid savepoint or a pending non-durable commit holds no pin\n" tag
      | Some held ->
        let fpages = if ownfreed <> [] then ownfreed else [pseudo_f] and apages = if ownalloc <> [] then ownalloc else [pseudo_a] in
        let freed' = if f then freed @ [(txid, fpages)] else freed and alloc' = if a then alloc @ [(txid, apages)] else alloc in
        let allocated' = allocated @ (if f && ownfreed = [] then [pseudo_f] else []) @ (if a && ownalloc = [] then [pseudo_a] else []) in
        let npairs = List.map (fun (x, y) -> (n_of_int x, n_of_int y)) in
        let s0 = ginit (n_of_int txid) (n_of_int last) (nl (owned @ held)) (npairs valid) (npairs pending) (nl held)
            (ntab freed') (ntab alloc') (nl allocated') in
        if not (wf_init_b s0) then Printf.printf "%s|WF-FAIL the initial state does not satisfy wf_init_b\n" tag
        else begin
          let progs = [[GCommit]; (match drop with [(sp, t)] -> [GDrop (n_of_int sp, n_of_int t)] | _ -> [])] in
          let pool = ref (gstart progs) and st = ref s0 and err = ref None in
          List.iteri (fun i g ->
            if !err = None then
              match String.index_opt g '>' with
              | None -> err := Some ("BAD " ^ g)
              | Some j ->
                let t = int_of_string (String.sub g 0 j) and ev = String.sub g (j + 1) (String.length g - j - 1) in
                (match ggrant faithful (nat_of_int t) !pool !st with
                 | None -> err := Some (Printf.sprintf "MODEL-VOID at grant %d (%s): the model's thread has nothing left to do" i g)
                 | Some ((p', s'), e) ->
                   let me = (match e with EAt x -> pause_of x | EBlocked -> "blocked" | EDone _ -> "done") in
                   if me <> ev then err := Some (Printf.sprintf "MODEL-EVENT-MISMATCH at grant %d (%s): the model stops at %s" i g me)
                   else (pool := p'; st := s'))) grants;
          match !err with
          | Some m -> Printf.printf "%s|%s\n" tag m
          | None ->
            let s = !st in
            let safe = alloc_ok_b s && reach_ok_b s0 s in
            Printf.printf "%s|last=%d|live=%s|valid=%s|pending=%s|freed=%s|alloc=%s|#main=%s epi=%s purged=%s h1=%d sph=%s eh=%d pc=%d safe=%b\n" tag
              (int_of_n s.g_last) (counts (List.map int_of_n s.g_live)) (pairs s.g_valid) (pairs s.g_pending) (keys s.g_freed) (keys s.g_alloc)
              (keys s.g_gone_main) (keys s.g_gone_epi) (String.concat "," (List.map (fun k -> string_of_int (int_of_n k)) s.g_purged))
              (int_of_n s.g_h1) (match s.g_sph with Some h -> string_of_int (int_of_n h) | None -> "MAX") (int_of_n s.g_eh) (int_of_n s.g_pc) safe
        end) variants
  | _ -> print_endline "BADLINE"

let () =
  if Array.length Sys.argv > 1 && Sys.argv.(1) = "cg" then begin
    (try while true do cg_line (input_line stdin) done with End_of_file -> ());
    exit 0
  end

let () =
  try
    while true do
      let line = input_line stdin in
      match String.split_on_char '|' line with
      | [id; _kind; pre; fin; progs; log] ->
        (* the harness seeds every table with an even number (normal tables: rows k -> 1000+k for k < 40) *)
        let tabs0 = List.sort_uniq compare
            (List.concat_map (fun p -> List.filter_map (fun c ->
                 if c <> "" && c.[0] = 'O' then Some (int_of_string (String.sub c 1 (String.length c - 1))) else None)
                 (String.split_on_char ',' p)) (String.split_on_char ';' progs)) in
        let seeds = List.filter_map (fun tb -> if tb < 100 && tb mod 2 = 0
                      then Some (n_of_int tb, List.init 40 (fun k -> (n_of_int k, n_of_int (1000 + k)))) else None) tabs0 in
        let st = ref (sinit_tables (if pre = "1" then [n_of_int 900] else []) seeds) in
        let err = ref None in
        List.iter (fun e ->
          if !err = None && e <> "" then begin
            match String.split_on_char ':' e with
            | [t; lab; locked] ->
              let l = if lab.[0] = 'E' then LEnter (call_of (String.sub lab 1 (String.length lab - 1)))
                      else LSec (name_of (String.sub lab 1 (String.length lab - 1))) in
              if lock_free !st <> (locked = "0") then err := Some ("LOCK-MISMATCH at " ^ e)
              else (match sstep (nat_of_int (int_of_string t)) l !st with
                    | Some s' -> st := s'
                    | None -> err := Some ("MODEL-STUCK at " ^ e))
            | _ -> err := Some ("BAD " ^ e)
          end) (String.split_on_char ' ' log);
        (match !err with
         | Some m -> Printf.printf "%s|%s\n" id m
         | None ->
           let s = !st in
           let rs = List.rev_map (fun ((t, c), r) -> Printf.sprintf "%d:%s=%s" (int_of_nat t) (call_s c) (res_s r)) s.s_results in
           let tabs = List.sort_uniq compare
               (List.concat_map (fun p -> List.filter_map (fun c ->
                    if c <> "" && c.[0] = 'O' then Some (int_of_string (String.sub c 1 (String.length c - 1))) else None)
                    (String.split_on_char ',' p)) (String.split_on_char ';' progs)) in
           let digests = if fin = "2" then [] else
               List.filter_map (fun tb -> if tb >= 100 then None else begin
                 let m = table_map s (n_of_int tb) in
                 let h = List.fold_left (fun h (k, v) -> (h * 31 + int_of_n k * 1009 + int_of_n v) mod 1_000_000_007) 0 m in
                 Some (Printf.sprintf "T%d=%d:%d" tb (List.length m) h) end) tabs in
           Printf.printf "%s|%s|tracking=%s dirty=%d|%s\n" id (String.concat " " rs)
             (if s.s_tracking then "Track" else "Ignore") (if s.s_dirty then 1 else 0) (String.concat " " digests))
      | _ -> print_endline "BADLINE"
    done
  with End_of_file -> ()
