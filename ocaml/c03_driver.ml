(* Line-protocol driver around the extracted C03 step model (coq/Conc/Programs.v).
   input line (cases.txt):  id|kind|cache|<thread programs>|<directives>|<grant sequence>
   output line:             id|<tid>:<event> ...        event = @<next step name> | B | D<result>;  W = injected wakeup *)
open C03_model

let rec pos_of_int i = if i = 1 then XH else if i land 1 = 1 then XI (pos_of_int (i lsr 1)) else XO (pos_of_int (i lsr 1))
let n_of_int i = if i = 0 then N0 else Npos (pos_of_int i)
let rec int_of_pos = function XH -> 1 | XO p -> 2 * int_of_pos p | XI p -> 2 * int_of_pos p + 1
let int_of_n = function N0 -> 0 | Npos p -> int_of_pos p
let rec nat_of_int i = if i = 0 then O else S (nat_of_int (i - 1))
let rec int_of_nat = function O -> 0 | S n -> 1 + int_of_nat n
let string_of_chars l = String.init (List.length l) (List.nth l)

let num s pre = n_of_int (int_of_string (String.sub s (String.length pre) (String.length s - String.length pre)))
let starts s p = String.length s >= String.length p && String.sub s 0 (String.length p) = p
let call_of (c : string) : call =
  match c with
  | "BW" -> BeginWrite | "PUT" -> Put | "CD0" -> CommitD false | "CD1" -> CommitD true | "CN" -> CommitND
  | "AB" -> Abort | "DW" -> DropWtx | "DDB" -> DropDb
  | _ when starts c "BR" -> BeginRead (num c "BR")
  | _ when starts c "OB" -> Observe (num c "OB")
  | _ when starts c "DR" -> DropReader (num c "DR")
  | _ when starts c "SP" -> Savepoint (num c "SP")
  | _ when starts c "DS" -> DropSavepoint (num c "DS")
  | _ -> failwith ("call " ^ c)

let ev_s = function
  | EAt n -> "@" ^ string_of_chars n
  | EBlocked -> "B"
  | EDone ROk -> "Dok"
  | EDone (RTag c) -> "Dc=" ^ string_of_int (int_of_n c)
  | EDone RNone -> "Dnone"

let () =
  try
    while true do
      let line = input_line stdin in
      match String.split_on_char '|' line with
      | [id; _kind; _cache; progs; _dirs; grants] ->
        let progs = List.map (fun p -> List.map call_of (List.filter (fun x -> x <> "") (String.split_on_char ',' p)))
                      (String.split_on_char ';' progs) in
        let toks = List.filter (fun x -> x <> "") (String.split_on_char ' ' grants) in
        let out = Buffer.create 256 in
        let pool = ref (pstart progs) and st = ref init in
        let first = ref true in
        let emit s = (if not !first then Buffer.add_char out ' '); first := false; Buffer.add_string out s in
        (* void grants produce no event: the harness never logs one, so a missing event shows as a difference *)
        List.iter (fun tok ->
          if tok = "W" then emit "W"
          else begin
            let t = int_of_string tok in
            let ((p', s'), evs) = prun [nat_of_int t] !pool !st in
            pool := p'; st := s';
            match evs with
            | [] -> emit (tok ^ ":void")
            | l -> List.iter (fun (tn, e) -> emit (string_of_int (int_of_nat tn) ^ ":" ^ ev_s e)) l
          end) toks;
        Printf.printf "%s|%s\n" id (Buffer.contents out)
      | _ -> print_endline "BADLINE"
    done
  with End_of_file -> ()
