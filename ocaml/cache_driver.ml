(* Line-protocol driver around the extracted model of redb's page cache / write buffer (coq/Storage/Cache.v).
   Reads the programs written by harness/src/bin/cachecorr.rs (cases) and prints, for every call, what the MODEL
   answers in the format of the harness' impl file.  All numbers are hexadecimal; offsets / lengths / bytes stay the
   extracted inductive N inside the model.
     P <id> <ps> <max_cache> <flen> <fseed>      -> echoed
     <op> [~] | R <off>* | W <off>* | B <0|1>* [| H <result> <ns>]   -> r=<result> ev=<backend events> <picture of the caches | ~> [!proto]
     E                                            -> file=<fnv64 of the model's backend bytes>
   The oracle of the model is what the real crate was observed to do: R = read-cache keys it evicted (ordered here by
   length, then offset, which reproduces every stopping point of the eviction loops), W = the offsets of its backend
   writes in order (eviction / writeback / flush order), B = the backend's answers.  `giveup` (LRUWriteCache::
   pop_lowest_priority returning None next to a taken page) is not observable: the step is run without it and,
   if the model then writes other pages, evicts other read-cache keys, returns another result or leaves another
   next_eviction_stripe than the crate did (H), once more with it.
   `!proto` is appended when the extracted usage protocol (proto_step) rejects the call: the theorems do not
   cover such a program (a generator bug).                                                                        *)
open Cache_model

let rec pos_of_int i = if i = 1 then XH else if i land 1 = 1 then XI (pos_of_int (i lsr 1)) else XO (pos_of_int (i lsr 1))
let n_of_int i = if i = 0 then N0 else Npos (pos_of_int i)
let rec int_of_pos = function XH -> 1 | XO p -> 2 * int_of_pos p | XI p -> 2 * int_of_pos p + 1
let int_of_n = function N0 -> 0 | Npos p -> int_of_pos p
let n_of_hex s = n_of_int (int_of_string ("0x" ^ s))
let hx i = Printf.sprintf "%x" i
let hn x = hx (int_of_n x)

let fnv (l : n list) : string =
  let h = ref 0xcbf29ce484222325L in
  List.iter (fun b -> h := Int64.mul (Int64.logxor !h (Int64.of_int (int_of_n b))) 0x100000001b3L) l;
  Printf.sprintf "%Lx" !h

let pat0 fseed i = (i * 31 + (i lsr 8) * 17 + fseed) land 0xff
let pat a j = (a + j * 7 + (j lsr 8) * 13) land 0xff

let res_str = function
  | Done -> "ok"
  | Data d -> Printf.sprintf "d:%x:%s" (List.length d) (fnv d)
  | Len x -> "len:" ^ hn x
  | Err RIo -> "err:io"
  | Err RPreviousIo -> "err:prev"
  | Err RDatabaseClosed -> "err:closed"
  | Err _ -> "err:other"
  | Panic -> "panic"

let ev_str (e : ev) =
  let ok = if e.e_ok then "+" else "-" in
  match e.e_call with
  | BLen -> "L" ^ ok
  | BRead (o, l) -> Printf.sprintf "R%s:%s%s" (hn o) (hn l) ok
  | BWrite (o, d) -> Printf.sprintf "%s%s:%x:%s%s" (if e.e_be then "w" else "W") (hn o) (List.length d) (fnv d) ok
  | BSetLen x -> Printf.sprintf "S%s%s" (hn x) ok
  | BSync -> "Y" ^ ok

let state_str (s : state) =
  let rc = List.sort compare (List.map (fun (k, d) -> (int_of_n k, List.length d)) s.rc) in
  let wb = List.sort compare (List.map (fun (k, v) -> (int_of_n k, match v with Some d -> List.length d | None -> -1)) s.wb) in
  Printf.sprintf "rc=%s wb=%s rcb=%s wbb=%s cpb=%d ns=%s iof=%d"
    (String.concat "," (List.map (fun (k, l) -> hx k ^ ":" ^ hx l) rc))
    (String.concat "," (List.map (fun (k, l) -> hx k ^ ":" ^ (if l < 0 then "T" else hx l)) wb))
    (hn s.rc_bytes) (hn s.wb_bytes) (if s.cpb then 1 else 0) (hn s.nstripe) (if s.latch.io_failed then 1 else 0)

let all_stripes = List.init 131 n_of_int

let write_offsets evs =
  List.filter_map (fun e -> match e.e_call with BWrite (o, _) -> Some (int_of_n o) | _ -> None) evs

let () =
  let cfg = ref { page_size = N0; max_cache = N0 } in
  let st = ref (init_state []) in
  let gh = ref (Some (g_init N0)) in
  let outs : (int, n list) Hashtbl.t = Hashtbl.create 16 in
  try
    while true do
      let line = input_line stdin in
      let parts = String.split_on_char '|' line in
      let toks s = List.filter (fun x -> x <> "") (String.split_on_char ' ' s) in
      match toks (List.hd parts) with
      | "P" :: _id :: ps :: mx :: flen :: fseed :: _ ->
        let flen = int_of_string ("0x" ^ flen) and fseed = int_of_string ("0x" ^ fseed) in
        cfg := { page_size = n_of_hex ps; max_cache = n_of_hex mx };
        st := init_state (List.init flen (fun i -> n_of_int (pat0 fseed i)));
        gh := Some (g_init (n_of_int flen));
        Hashtbl.reset outs;
        print_endline line
      | ["E"] -> Printf.printf "file=%s\n" (fnv !st.file)
      | optoks ->
        let nostate = List.mem "~" optoks in
        let optoks = List.filter (fun x -> x <> "~") optoks in
        let sect c = match List.filter (fun p -> match toks p with x :: _ when x = c -> true | _ -> false) (List.tl parts) with
          | p :: _ -> List.tl (toks p) | [] -> [] in
        let robs = List.map (fun x -> int_of_string ("0x" ^ x)) (sect "R") in
        let wobs = List.map (fun x -> int_of_string ("0x" ^ x)) (sect "W") in
        let bobs = List.map (fun x -> x = "1") (sect "B") in
        (* order the evicted read-cache keys by (length, offset) *)
        let rlen k = match alookup (n_of_int k) !st.rc with Some d -> List.length d | None -> 0 in
        let robs = match optoks with
          | "r" :: a :: l :: _ ->     (* the page being read is inserted before the eviction *)
            let a = int_of_string ("0x" ^ a) and l = int_of_string ("0x" ^ l) in
            List.sort compare (List.map (fun k -> ((if k = a then l else rlen k), k)) robs)
          | _ -> List.sort compare (List.map (fun k -> (rlen k, k)) robs) in
        let rp = List.map (fun (_, k) -> n_of_int k) robs in
        let orc gu = { rpicks = rp; wpicks = List.map n_of_int wobs; giveup = gu; locks = []; boks = bobs } in
        let h2 a = n_of_hex a in
        let op =
          match optoks with
          | ["r"; a; l; c] -> ORead (h2 a, h2 l, (if c = "c" then HClean else HNone))
          | ["w"; a; l; w] -> OWrite (h2 a, h2 l, w = "1")
          | "d" :: a :: rest ->
            let ai = int_of_string ("0x" ^ a) in
            let cur = try Hashtbl.find outs ai with Not_found -> [] in
            let data = match rest with
              | ["F"; p] -> let p = int_of_string ("0x" ^ p) in List.mapi (fun j _ -> n_of_int (pat p j)) cur
              | ["P"; j; v] -> let j = int_of_string ("0x" ^ j) and v = n_of_hex v in List.mapi (fun i x -> if i = j then v else x) cur
              | _ -> failwith "drop" in
            Hashtbl.remove outs ai;
            ODrop (h2 a, data)
          | ["fs"; j; k] -> OFlushStripes (h2 j, h2 k)
          | ["fe"] -> OFlushEnd
          | ["sy"] -> OSync
          | ["fl"] -> OFlush
          | ["ba"] -> OBarrier
          | ["di"] -> ODiscard
          | ["iv"; a; l] -> OInvalidate (h2 a, h2 l)
          | ["ia"] -> OInvalidateAll
          | ["ca"; a; l] -> OCancel (h2 a, h2 l)
          | ["rs"; x] -> OResize (h2 x)
          | ["rd"; a; l] -> OReadDirect (h2 a, h2 l)
          | ["ln"] -> OLen
          | ["ck"] -> OCheckIo
          | _ -> failwith ("op " ^ line) in
        (* does an attempt reproduce what was observed: the backend writes and the set of evicted read-cache keys *)
        let robs_set = List.sort compare (List.map snd robs) in
        let keys_before = List.map (fun (k, _) -> int_of_n k) !st.rc in
        let evicted (s1 : state) evs =
          let after = List.map (fun (k, _) -> int_of_n k) s1.rc in
          let gone = List.filter (fun k -> not (List.mem k after)) keys_before in
          match optoks with
          | "r" :: a :: _ ->
            let a = int_of_string ("0x" ^ a) in
            let read_ok = List.exists (fun e -> e.e_ok && (match e.e_call with BRead _ -> true | _ -> false)) evs in
            List.sort compare (if read_ok && not (List.mem a after) && not (List.mem a keys_before) then a :: gone else gone)
          | "w" :: a :: _ -> let a = int_of_string ("0x" ^ a) in List.sort compare (List.filter (fun k -> k <> a) gone)
          | _ -> robs_set in
        let hint = sect "H" in
        let matches ((s1, e1), r1) =
          write_offsets e1 = wobs && evicted s1 e1 = robs_set
          && (match hint with [hr; hns] -> res_str r1 = hr && hn s1.nstripe = hns | _ -> true) in
        let a1 = step !cfg !st op (orc []) in
        let ((s1, e1), r1) =
          if matches a1 then a1
          else
            let a2 = step !cfg !st op (orc all_stripes) in
            if matches a2 then a2 else a1 in
        (match op, r1 with
         | OWrite (a, _, _), Data d -> Hashtbl.replace outs (int_of_n a) d
         | _ -> ());
        let is_err = (match r1 with Err _ -> true | _ -> false) in
        let proto_ok =
          match !gh with
          | None -> false
          | Some g ->
            if is_err then (gh := Some (proto_fail g op); true)
            else (match proto_step !cfg g op with
                | Some g' -> gh := Some g'; true
                | None -> gh := None; false) in
        st := s1;
        Printf.printf "r=%s ev=%s %s%s\n" (res_str r1) (String.concat "," (List.map ev_str e1))
          (if nostate then "~" else state_str s1) (if proto_ok then "" else " !proto")
    done
  with End_of_file -> ()
