#!/bin/bash
# MANIFEST.setup_cmd: build the framework offline from files on disk (Coq development, extracted
# drivers, harness crate). Every check rebuilds what it needs incrementally afterwards.
set -u
cd "$(dirname "$0")"
export CARGO_NET_OFFLINE=true
python3 - <<'PY'
import sys, os, glob
sys.path.insert(0, "lib")
import vlib
ok, out = vlib.coq_make([f[:-2] + ".vo" for f in vlib.coq_files()], timeout=3000, keep_going=True)
print(out[-3000:])
print("coq build ok" if ok else "coq build FAILED (checks will report per property)")
for drv in sorted(glob.glob("ocaml/*_driver.ml")):
    name = os.path.basename(drv)[:-len("_driver.ml")]
    exe, out = vlib.ocaml_driver(name)
    print("driver", name, "ok" if exe else "FAILED: " + out[-800:])
d, tgt = vlib.harness_dir()
rc, out = vlib.sh(["cargo", "build", "--offline", "--bins"], cwd=d, env={"RUSTFLAGS": "--cfg redb_verif", "CARGO_TARGET_DIR": tgt}, timeout=3000)
print(out[-2000:])
print("harness build rc", rc)
PY
exit 0
