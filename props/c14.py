"""C14 -- The page allocator never double-allocates and never loses space (DESIGN.md section 5, C14).

S1  Coq: coq/Alloc/{Bitmap,Buddy,Region}.v (model) + *P.v (proofs) + Props/C14.v.
S2  harness/src/bin/c14.rs drives the real BuddyAllocator / BtreeBitmap / U64GroupedBitmap / RegionTracker /
    TransactionalMemory bookkeeping through the redb::verif wrappers; ocaml/c14_driver.ml runs the extracted
    model on the same op programs; every op is compared (return value, counts, serialised bytes).
S3  inside the harness, independent of the model: a plain order-0 bitmap per region decides, for every
    implementation output, in-range / disjointness / refused-only-when-impossible / lowest index /
    merged-to-the-largest-order / counts / tracker-never-reports-full.  Failures arrive in s3.txt.
"""
import json
import os
import re
import shutil
import subprocess

import vlib


def _stats(out):
    st = {}
    m = re.search(r"evaluations=(\d+) programs=(\d+) distinct_nontrivial=(\d+) s3_violations=(\d+) "
                  r"impl_panics_valid=(\d+) malformed_ops=(\d+) malformed_panics=(\d+)", out)
    if not m:
        return None
    keys = ["evaluations", "programs", "distinct_nontrivial", "s3_violations", "impl_panics_valid",
            "malformed_ops", "malformed_panics"]
    for k, v in zip(keys, m.groups()):
        st[k] = int(v)
    for name in ("markers", "op_kinds", "sizes"):
        m = re.search(r"^%s (.*)$" % name, out, flags=re.M)
        d = {}
        if m:
            for tok in m.group(1).split():
                k, _, v = tok.rpartition(":" if name != "op_kinds" else "=")
                if k:
                    d[k] = int(v)
        st[name] = d
    m = re.search(r"^extra (.*)$", out, flags=re.M)
    st["extra"] = m.group(1) if m else ""
    st["samples"] = re.findall(r"^sample (.*)$", out, flags=re.M)
    return st


def _s3(ctx, tag):
    """Turn the harness's S3 failures into replayable violations (one per key)."""
    p = os.path.join(ctx.workdir, "s3.txt")
    n = 0
    if not os.path.exists(p):
        return 0
    for line in open(p):
        line = line.strip()
        if not line:
            continue
        n += 1
        try:
            v = json.loads(line)
        except ValueError:
            ctx.violation("c14-s3-unparsed", "unparsable S3 record: " + line[:300], {"stream": tag})
            continue
        ctx.violation("c14-" + v["key"], v["what"],
                      {"stream": tag, "program": v["program"],
                       "how_to_replay": "printf '%s\\n' <program lines> | VERIF_SEED=<seed> c14 replay  (or ./check C14 --replay <this file>)",
                       "oracle": "plain order-0 bitmap per region, independent of the model"})
    return n


def _run_stream(ctx, mode, args, tag, cov, want_driver=True):
    """harness + model driver + diff for one stream. Returns (s2_ok, detail, stats)."""
    rc, out = ctx.harness("c14", [mode] + list(args), timeout=3000)
    if rc is None or rc != 0:
        return False, "harness %s failed rc=%s: %s" % (mode, rc, (out or "")[-1500:]), None
    st = _stats(out)
    if st is None:
        return False, "harness %s printed no statistics: %s" % (mode, out[-800:]), None
    nviol = _s3(ctx, tag)
    vlib.log("  [%s] %d ops in %d programs, %d non-trivial, S3 failures %d, %s" %
             (tag, st["evaluations"], st["programs"], st["distinct_nontrivial"], nviol, st.get("extra", "")[:200]))
    if not want_driver:
        return True, None, st
    rc2, err = ctx.driver("c14", "cases.txt", "model.txt", timeout=3000)
    if rc2 != 0:
        return False, "model driver failed rc=%s: %s" % (rc2, err), st
    nl, diffs = ctx.diff_lines("impl.txt", "model.txt", limit=3)
    if diffs:
        cases = open(os.path.join(ctx.workdir, "cases.txt")).read().split("\n")
        det = []
        for (ln, a, b) in diffs:
            # program the line belongs to
            start = min(ln - 1, len(cases) - 1)
            while start > 0 and not re.match(r"^[BTPURM] ", cases[start]):
                start -= 1
            det.append({"line": ln, "program_prefix": [c for c in cases[start:ln] if c and c not in ("(", ")")][-40:],
                        "impl": a[:400], "model": b[:400]})
        return False, {"stream": tag, "first_differences": det}, st
    st["compared_lines"] = nl
    return True, None, st


def _replay(ctx):
    obj = json.load(open(ctx.replay))
    prog = obj.get("program") or (obj.get("correspondence") or {}).get("first_differences", [{}])[0].get("program_prefix")
    if not prog:
        vlib.log("replay file has no program")
        return 2
    exe, out = vlib.cargo_bin("c14")
    if exe is None:
        vlib.log(out[-2000:])
        return 2
    env = dict(os.environ, VERIF_SEED=str(obj.get("seed", 1)), VERIF_C14_DUMP="1")
    p = subprocess.run([exe, "replay", "0"], input="\n".join(prog) + "\nE\n", text=True, cwd=ctx.workdir, env=env,
                       stdout=subprocess.PIPE, stderr=subprocess.STDOUT)
    vlib.log(p.stdout[-1500:])
    drv, _ = vlib.ocaml_driver("c14")
    if drv:
        with open(os.path.join(ctx.workdir, "cases.txt")) as fi:
            q = subprocess.run([drv], stdin=fi, env=env, stdout=subprocess.PIPE, text=True)
        il = open(os.path.join(ctx.workdir, "impl.txt")).read().split("\n")
        ml = q.stdout.split("\n")
        cl = open(os.path.join(ctx.workdir, "cases.txt")).read().split("\n")
        for c, a, b in zip(cl, il, ml):
            vlib.log("  %-12s impl  %s" % (c, a[:300]))
            if a != b:
                vlib.log("  %-12s MODEL %s" % ("", b[:300]))
    s3 = open(os.path.join(ctx.workdir, "s3.txt")).read().strip()
    if s3:
        vlib.log("S3 failures reproduced:\n" + s3[:3000])
        return 1
    vlib.log("no S3 failure on this program")
    return 0


def run(ctx):
    if getattr(ctx, "replay", None):
        return _replay(ctx)
    s1 = ctx.proof_obligations()
    cov = {"evaluations": 0, "distinct_nontrivial": 0, "traces_validated_against_impl": 0}
    s2_ok, detail = True, None
    streams = {}
    budget = 220 if ctx.quick else 6000
    plan = [("random", [budget], "random")]
    if not ctx.quick:
        plan.append(("exhaustive", [5, 12], "exhaustive"))
    for mode, args, tag in plan:
        ok, det, st = _run_stream(ctx, mode, args, tag, cov)
        if st:
            streams[tag] = {k: st[k] for k in st if k != "samples"}
            cov["evaluations"] += st["evaluations"]
            cov["distinct_nontrivial"] += st["distinct_nontrivial"]
            cov["traces_validated_against_impl"] += st.get("compared_lines", 0)
            if tag == "random":
                cov["samples"] = st["samples"][:4]
        if not ok:
            s2_ok, detail = False, det
            break
    searched = None
    if (not s2_ok or not s1["ok"]) and not ctx.violations:
        # failing-input search: S3 only (no model needed), 20x budget, seeds derived from VERIF_SEED
        found = 0
        tried = []
        for j in range(4):
            seed0 = ctx.seed
            ctx.seed = seed0 * 1000003 + 17 + j
            ok, det, st = _run_stream(ctx, "random", [budget * 5], "search-%d" % j, cov, want_driver=False)
            ctx.seed = seed0
            tried.append({"seed": seed0 * 1000003 + 17 + j, "ops": st["evaluations"] if st else 0})
            if ctx.violations:
                found = 1
                break
        searched = {"s3_only_runs": tried, "found": bool(found)}
    if not ctx.quick and s1["ok"]:
        okc, outc = ctx.coqchk()
        cov["coqchk"] = "ok" if okc else "FAILED: " + outc[-400:]
        if not okc:
            s1["ok"] = False
            s1["failed"].append("coqchk failed: " + outc[-300:])
    cov["streams"] = streams
    cov["rule"] = ("one evaluation = one allocator operation executed on the real code and on the extracted model and compared "
                   "(return value, len, max_order, allocated/free page counts, highest free order, serialised bytes: full hex up to "
                   "200 bytes, else length + 62-bit fingerprint); non-trivial = distinct (state, op) pairs that cross a marker: "
                   "split on alloc, refusal, merge on free, record_alloc, resize (word boundary or not), serialise/restore, "
                   "multi-level bitmap update, grow, shrink")
    cov["trusted_base"] = ["Coq 8.16.1 kernel + vm_compute", "tools/gen_consts.py (BUDDY_*/BITMAP_* offsets, MAX_MAX_PAGE_ORDER, MAX_REGIONS, INITIAL_REGIONS)",
                           "harness/src/bin/c14.rs (generators, plain-bitmap oracle)", "redb::verif wrappers (VBuddy, VBtreeBitmap, VU64Bitmap, VRegionTracker, VAllocMem)",
                           "extraction (ExtrOcamlBasic only) + ocaml/c14_driver.ml (text <-> N conversion, 62-bit fingerprint of long byte strings)"]
    assumptions = ["u32/u8 arithmetic of the Rust code is modelled by unbounded N: sizes stay far below 2^32 (regions have at most 2^20 pages)",
                   "panics of the Rust code (assertions, slice bounds) are modelled as explicit *_pre booleans; the theorems assume them",
                   "region length 0: growing from 0 and trailing_free_pages on 0 panic in redb (DESIGN 6.3 F1) -- outside the model's domain, recorded by the F1 probe"]
    return ctx.finish("proof", cov, assumptions=assumptions, s2_ok=s2_ok, s2_detail=detail, searched=searched)
