"""C03 -- Commits take effect atomically and in one serial order (DESIGN.md section 5, C03; as built: design.d/C03.md).

S1  Coq: Props/C03.v (theorems over every schedule of the lock-atomic step model Conc/Programs.v)
S2  correspondence: every forced schedule the harness runs against the real crate is replayed by the
    extracted model; per grant the event (next pause-point name / blocked / call result) must be equal
S3  oracle on the implementation's own outputs (harness/src/bin/c03.rs): cross-table invariant, no
    uncommitted/aborted data, a reader begun after commit() returned sees it, per-thread monotonic
    snapshots, frozen snapshots, at most one writer, no hang in a schedule the model allows, final state
"""
import json
import os
import re

BIN = "c03"
PID = "C03"
KEYPFX = "c03"


def parse_stats(out):
    m = re.search(r"scenarios=(\d+) executed=(\d+) distinct_nontrivial=(\d+) grants=(\d+) violations=(\d+) late_root_nd=(\d+) kinds=(\{.*?\}) points=(\{.*?\})", out)
    if not m:
        return None
    d = {"scenarios": int(m.group(1)), "executed": int(m.group(2)), "distinct_nontrivial": int(m.group(3)),
         "grants": int(m.group(4)), "violations": int(m.group(5)), "late_root_nd": int(m.group(6))}
    for k, g in (("kinds", 7), ("points", 8)):
        d[k] = {a: int(b) for a, b in re.findall(r'"([^"]+)": (\d+)', m.group(g))}
    return d


def read_lines(ctx, name):
    p = os.path.join(ctx.workdir, name)
    if not os.path.exists(p):
        return []
    return [l for l in open(p).read().split("\n") if l]


def replay_obj(ctx, case_line, extra=None):
    f = case_line.split("|")
    o = {"scenario_line": "|".join(f[:5]),
         "format": "id|kind|cache bytes|thread programs (calls, ';' between threads)|directives (cTxN = run N calls of thread T, gTxN = N single grants, w = spurious wakeup)",
         "grant_sequence": f[5] if len(f) > 5 else "",
         "how_to_replay": "./check %s --replay <this file>   (or: harness bin %s, `%s replay <file containing scenario_line>`)" % (PID, BIN, BIN)}
    if extra:
        o.update(extra)
    return o


def evaluate(ctx, tag):
    """Read the harness outputs in workdir: S3 violations -> ctx.violation; returns (n_cases, s2_diffs, f1_ids)"""
    cases = read_lines(ctx, "cases.txt")
    by_id = {l.split("|")[0]: l for l in cases}
    f1 = set()
    nv = 0
    for l in read_lines(ctx, "oracle.txt"):
        f = l.split("|", 3)
        if f[0] != "V":
            continue
        key, sid, what = f[1], f[2], f[3]
        if "-F1-" in key:
            f1.add(sid)
        nv += 1
        ctx.violation(key, "%s [scenario %s %s]" % (what, sid, by_id.get(sid, "?").split("|")[1] if sid in by_id else ""),
                      replay_obj(ctx, by_id.get(sid, sid + "|?|0||"), {"symptom": what, "search": tag}))
    return cases, by_id, f1, nv


def correspondence(ctx, cases, f1):
    """model vs implementation, grant by grant; returns list of (id, pos, impl, model)"""
    # injected storage failures are outside the step model: those scenarios are judged by the oracle only
    nomodel = {c.split("|")[0] for c in cases if c.split("|")[1].startswith("syncfail")}
    rc, err = ctx.driver(BIN, "cases.txt", "model.txt")
    if rc != 0:
        return None, "model driver failed rc=%s: %s" % (rc, err)
    impl = read_lines(ctx, "impl.txt")
    model = read_lines(ctx, "model.txt")
    diffs = []
    for i in range(max(len(impl), len(model))):
        a = impl[i] if i < len(impl) else "<missing>"
        b = model[i] if i < len(model) else "<missing>"
        if a == b:
            continue
        sid = a.split("|")[0]
        if sid in f1 or sid in nomodel:
            continue  # after the finding's first symptom the implementation's run is no longer meaningful
        xs, ys = a.split("|", 1)[-1].split(" "), b.split("|", 1)[-1].split(" ")
        pos = next((j for j in range(min(len(xs), len(ys))) if xs[j] != ys[j]), min(len(xs), len(ys)))
        diffs.append({"scenario": sid, "grant_index": pos, "impl": xs[max(0, pos - 2):pos + 2], "model": ys[max(0, pos - 2):pos + 2]})
    return diffs, None


def run(ctx):
    # VERIF_SKIP_S1=1 is for mutation campaigns only (the Coq side does not depend on the redb checkout)
    s1 = ctx.proof_obligations() if os.environ.get("VERIF_SKIP_S1") != "1" else {"ok": True, "theorems": [], "examples": [], "failed": [], "axioms": {}}
    cov = {"evaluations": 0, "distinct_nontrivial": 0}
    s2_ok, detail, searched = True, None, None
    if getattr(ctx, "replay", None):
        rp = json.load(open(ctx.replay))
        with open(os.path.join(ctx.workdir, "replay.txt"), "w") as f:
            f.write(rp["scenario_line"] + "\n")
        rc, out = ctx.harness(BIN, ["replay", "replay.txt"], timeout=600)
        print(out[-1500:])
        for n in ("impl.txt", "oracle.txt"):
            print("--- " + n)
            print("\n".join(read_lines(ctx, n))[:6000])
        cases, by_id, f1, nv = evaluate(ctx, "replay")
        cov.update({"evaluations": len(cases), "distinct_nontrivial": 0, "rule": "replay of one stored scenario"})
        return ctx.finish("proof", cov, s2_ok=True)

    rc, out = ctx.harness(BIN, ["sweep"], timeout=1500)
    stats = parse_stats(out or "")
    cur = os.path.join(ctx.workdir, "current.txt")
    if (rc != 0 or stats is None) and os.path.exists(cur):
        # the process died inside a scenario (redb aborted: a panic while unwinding, a poisoned mutex ...)
        line = open(cur).read().strip()
        evaluate(ctx, "sweep (aborted)")
        ctx.violation("c03-process-abort",
                      "the process aborted (rc=%s) while running scenario %s: %s" % (rc, line.split("|")[1], (out or "")[-300:].strip()),
                      replay_obj(ctx, line + "|", {"search": "sweep"}))
    if rc != 0 or stats is None:
        s2_ok, detail = False, "harness failed rc=%s: %s" % (rc, (out or "")[-1500:])
    else:
        cases, by_id, f1, nv = evaluate(ctx, "sweep")
        cov["evaluations"] = stats["executed"]
        cov["distinct_nontrivial"] = stats["distinct_nontrivial"]
        cov["grants"] = stats["grants"]
        cov["scenario_kinds"] = stats["kinds"]
        cov["pause_points_hit"] = stats["points"]
        cov["late_root_scenarios"] = stats["late_root_nd"]
        cov["samples"] = [c for c in cases[:1] + cases[len(cases) // 2:len(cases) // 2 + 1] + cases[-1:]]
        diffs, err = correspondence(ctx, cases, f1)
        if err:
            s2_ok, detail = False, err
        else:
            cov["traces_validated_against_impl"] = len(cases) - len([1 for c in cases if c.split("|")[0] in f1])
            if diffs:
                s2_ok = False
                detail = {"first_differences": diffs[:5], "n_differing_scenarios": len(diffs),
                          "cases": [by_id.get(d["scenario"], "")[:600] for d in diffs[:3]]}
        if (not s2_ok or not s1["ok"]) and not ctx.violations:
            # directed search: many more random 3-thread schedules, judged by the same oracle
            n = 6000 if ctx.quick else 40000
            rc2, out2 = ctx.harness(BIN, ["directed", n], timeout=1500)
            st2 = parse_stats(out2 or "")
            searched = "directed search: %s random 3-thread forced schedules, oracle violations: %s" % (
                n, st2["violations"] if st2 else "harness failed")
            if st2:
                evaluate(ctx, "directed")
                cov["directed_search_scenarios"] = st2["executed"]
    cov["rule"] = ("forced schedules over the H4 pause points: solo traces of every call kind; every placement of "
                   "begin_read / drop reader / begin_write / Savepoint drop / Database drop into every gap of durable, "
                   "two-phase, non-durable commit, abort and drop of a write transaction (both orders, 4 pre-states, "
                   "3 cache sizes); begin_write waiting with injected spurious wakeups; random 3-thread schedules. "
                   "distinct_nontrivial = distinct event sequences in which a grant to another thread fell between two "
                   "grants of one call")
    cov["trusted_base"] = ["Coq 8.16.1 kernel + vm_compute", "idealisation: each mutex-protected section is one atomic step, SC memory",
                           "pause points of hook H4 identify the sections (src/verif_pause.rs, call sites in /repo)",
                           "harness/src/conc.rs + harness/src/bin/c03.rs (scheduler, oracle)",
                           "extraction (ExtrOcamlBasic, ExtrOcamlString) + ocaml/c03_driver.ml"]
    return ctx.finish("proof", cov,
                      assumptions=["lock-atomic step model (Conc/Programs.v); page contents abstracted to one payload tag per commit",
                                   "schedules are forced at pause points only: preemption inside a critical section is not an event"],
                      s2_ok=s2_ok, s2_detail=detail, searched=searched)
