"""C08 -- Storage errors never corrupt or silently lose data (DESIGN.md section 5, C08; design.d/C08.md).

S1  Coq: Props/C08.v (I/O latch automaton, close-once, failure = crash point, session-level refusal of writes).
S2  the call log of redb's CheckedBackend (entry flags via the verif_c08 hook, interleaved with the calls that
    reached the harness backend) replayed by the extracted latch model (G lines); the recovery_required flag
    left in the file after a run vs the extracted session model (D lines); the fault-free backend-call stream of
    every history vs the extracted protocol model (T lines) and, per faulted run, the extracted fault-aware commit
    model step_f / recovery_f (Storage/FaultCommit.v) with the same failure index vs the observed result class of
    the API call in progress and the surviving durable image + accepted operations (F lines).
S3  for every sampled (history, fault index k, once/permanent): no panic; the API call that issued the failing
    required backend call returns Err (Ok only when the latch model says the call was best-effort writeback);
    begin_write/commit refused until reopen; reads = spec data or Err; the surviving bytes and a sampled crash
    image of them reopen (without faults) to a commit point >= the last acknowledged durable commit, the
    failed commit applied entirely or not at all.  Evaluated by harness/src/bin/c08.rs against a
    specification model of the table contents.
"""
import json
import os
import re

from props import cache_common


def _read(ctx, name):
    p = os.path.join(ctx.workdir, name)
    if not os.path.exists(p):
        return []
    l = open(p).read().split("\n")
    while l and l[-1] == "":
        l.pop()
    return l


def evaluate(ctx, args=()):
    cov = {"evaluations": 0, "distinct_nontrivial": 0}
    rc, out = ctx.harness("c08", list(args), timeout=2400)
    if rc != 0:
        return False, ["harness failed rc=%s: %s" % (rc, (out or "")[-1500:])], cov
    rc2, err = ctx.driver("c08", "cases.txt", "model.txt", timeout=1200)
    if rc2 != 0:
        return False, ["model driver failed rc=%s: %s" % (rc2, err)], cov
    cases, impl, model, meta = (_read(ctx, f) for f in ("cases.txt", "impl.txt", "model.txt", "meta.txt"))
    if not (len(cases) == len(impl) == len(model) == len(meta)):
        return False, ["line counts differ: cases=%d impl=%d model=%d meta=%d" % (len(cases), len(impl), len(model), len(meta))], cov
    s2 = []
    kinds = {}
    samples = []
    for i, (c, a, b, m) in enumerate(zip(cases, impl, model, meta)):
        k = c[:1]
        kinds[k] = kinds.get(k, 0) + 1
        if a != b:
            if k == "G":
                s2.append("line %d: CheckedBackend call log is not a run of the latch model (model: %r); log %s ; %s"
                          % (i + 1, b, c[:600], m[:500]))
            elif k == "T":
                s2.append("line %d: the fault-free backend-call stream of a history is not the stream the extracted protocol model "
                          "(Storage/Protocol.v, the model Storage/FaultCommit.v runs under faults) emits: %s ; %s" % (i + 1, b[:900], m[:300]))
            elif k == "F":
                s2.append("line %d: faulted run vs the extracted fault-aware commit model (step_f / recovery_f with the same failure "
                          "index): observed [%s], model predicts [%s] (result class of the API call in progress; header / length of "
                          "the surviving durable image = the model's cut; accepted operations a weakening of the model's fault-free "
                          "sync window); case %s ; %s" % (i + 1, a, b, " ".join(c.split(" ")[:8]), m[:600]))
            else:
                s2.append("line %d: recovery_required left in the file = %s, session model says %s for events %r ; %s"
                          % (i + 1, a, b, c, m[:500]))
        elif len(samples) < 4 and len(c) < 300:
            samples.append({"case": c, "impl_and_model": b})
    for l in _read(ctx, "violations.txt"):
        try:
            d = json.loads(l)
        except ValueError:
            s2.append("unparsable violation record: " + l[:300])
            continue
        key, what = d.pop("key"), d.pop("what")
        d["how_to_replay"] = ("VERIF_SEED=%d ./check C08 --tier %s ; the record names the history (regenerated from the seed), "
                              "the failing backend call index and the failure mode" % (ctx.seed, ctx.tier))
        ctx.violation(key, what, d)
    notes = _read(ctx, "notes.txt")
    stats = "\n".join(_read(ctx, "stats.txt"))
    m = re.search(r"histories=(\d+) faulted_runs=(\d+) distinct_nontrivial=(\d+) model_lines=(\d+)", stats)
    cov["evaluations"] = int(m.group(2)) if m else 0
    cov["distinct_nontrivial"] = int(m.group(3)) if m else 0
    cov["histories"] = int(m.group(1)) if m else 0
    cov["traces_validated_against_impl"] = kinds.get("G", 0) + kinds.get("T", 0)
    cov["fault_model_predictions_compared"] = kinds.get("F", 0)
    cov["model_lines"] = kinds
    cov["distribution"] = stats
    cov["samples"] = samples
    cov["notes_from_harness"] = notes[:20]
    # a best-effort failure that surfaces, or a faulted run diverging before the fault, is a model/impl
    # difference (not a violation of the property): report through S2
    for n in notes:
        if n.startswith(("a failed best-effort write made", "faulted run diverges", "harness worker panicked", "harness inconsistency")):
            s2.append(n[:700])
    return True, s2, cov


def run(ctx):
    if getattr(ctx, "replay", None):
        d = json.load(open(ctx.replay))
        ctx.seed, ctx.tier = int(d.get("seed", ctx.seed)), d.get("tier", ctx.tier)
        if "cache_args" in d:       # a cache-layer violation (props/cache_common.py)
            cov = {"evaluations": 0, "distinct_nontrivial": 0, "rule": "replay"}
            cov.update(cache_common.replay_cache(ctx, "c08-", d))
            return ctx.finish("proof", cov)
    s1 = ctx.proof_obligations()
    if not ctx.quick and s1["ok"]:
        okc, outc = ctx.coqchk()
        if not okc:
            s1["ok"] = False
            s1["failed"].append("coqchk rejected RV.Props.C08: %s" % outc[-400:])
    ok, s2, cov = evaluate(ctx)
    searched = None
    if (not s1["ok"] or s2) and not ctx.violations:
        seed0 = ctx.seed
        ctx.seed = seed0 * 7919 + 13
        ok2, s2b, cov2 = evaluate(ctx, ["search"])
        ctx.seed = seed0
        searched = "re-ran the fault enumeration with a 4x budget and seed %d: %d faulted runs, %d violations found" % (
            seed0 * 7919 + 13, cov2.get("evaluations", 0), len(ctx.violations))
    # cache layer under backend faults: model Storage/Cache.v <-> PagedCachedFile, best-effort vs required writeback
    c_ok, c_detail, c_cov, c_searched = cache_common.check_cache(ctx, "c08-", "faults", 120 if ctx.quick else 1500)
    cov.update(c_cov)
    cov["traces_validated_against_impl"] = cov.get("traces_validated_against_impl", 0) + c_cov.get("cache_programs", 0)
    if not c_ok:
        s2 = list(s2) + ["cache layer: " + str(c_detail)[:1200]]
        searched = ((searched + " | ") if searched else "") + (c_searched or "")
    cov["rule"] = ("one evaluation = one faulted run of a history (history, index k of the failing backend call, once/permanent, "
                   "torn or clean failed write) with all S3 checks and 2 reopened images; all are distinct triples and non-trivial "
                   "(the k-th call was reached and failed); strata = (API call in progress, kind of the failed call, commit shape); "
                   "cache_* keys: call programs with injected backend failures on the real PagedCachedFile vs the extracted cache model; "
                   "fault_model_predictions_compared = F lines (extracted step_f / recovery_f vs the faulted run: result class + cut)")
    cov["trusted_base"] = ["Coq 8.16.1 kernel + vm_compute",
                           "harness/src/bin/c08.rs + harness/src/c08_util.rs (fault-injecting backend, specification model of table contents, API-call numbering)",
                           "extraction (ExtrOcamlBasic only) + ocaml/c08_driver.ml (latch/session replay; protocol segment feeding as c01_driver; "
                           "mapping of the failing call to the model call of the same sync window / operation)",
                           "hook crate::verif_c08 (entry log lines in CheckedBackend methods), Builder::verif_set_page_size/region_size",
                           "storage idealisation: a failed backend call has no effect (or stores a prefix of a write, 'torn' mode); "
                           "crash images = image at last successful sync + a subset of later writes"]
    assumptions = [
        "fault sequences are sampled (stratified by API call x backend call kind x commit shape; one contiguous window exhaustively), not exhausted",
        "'reports an error, never panics, never claims success' is observed on the sampled runs, not proved for the crate",
        "composition with C01: proved for C01's protocol model under an arbitrary fault oracle (c08_failed_commit_recovers, "
        "c08_faulty_history_recovers, c08_failed_recovery_recovers; premises tear_resistant / step_okb / step_sem / image_ok as in C01); "
        "that the real API calls are the model's steps is validated per run (T/F lines); outside the model the composition is by "
        "reopening the surviving bytes and 1 sampled crash image per run",
        "faults during the initial creation are out of scope of the property (after a completed creation)",
    ]
    return ctx.finish("proof", cov, assumptions=assumptions, s2_ok=not s2,
                      s2_detail=(s2[:6] if s2 else None), searched=searched)
