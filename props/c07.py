"""C07 -- Savepoints restore exactly the captured state (DESIGN.md section 5 C07, design.d/C07.md).

S1  coq/Props/C07.v  (model coq/Savepoint/Model.v, proofs coq/Savepoint/ModelP.v)
S2  harness/src/bin/c07.rs runs random savepoint histories on the real crate; the extracted model
    (ocaml/c07_driver.ml) answers the same operation list; every line is compared (results, ids,
    tracker bookkeeping from the H3 snapshot).
S3  the lines that ARE the property (contents after restore+commit / abort / reopen / crash, usability of
    later savepoints, listing / restorability of persistent savepoints) plus the space oracles the harness
    evaluates itself (page-ownership equation after every transaction boundary, nothing pending after
    cleanup, tracker references released, clean check_integrity).

Allocation records (coq/Txn/AllocRec.v on top of coq/Txn/Own.v; `c07 rec`, ocaml/c07r_driver.ml):
S2r after every API call of a second batch of histories the page-ownership state AND redb's allocation
    records (DATA_ALLOCATED_TABLE, unpersisted.allocations, PageTracker, dirty, valid savepoints, invalidated)
    are observed through H3 and compared with the extracted `step2`; on every restore the record-based
    `restore_rec` is compared with what redb freed / queued.
S3r the extracted, proved checkers `own_checkb` and `rinv_checkb` on every observed state; Rust-side direct
    checks (allocation_txn is the inverse index, working DATA_ALLOCATED = committed, the no-leak schedule of
    `c07_savepoint_no_leak` leaves nothing pending and empty records).
"""
import os
import re

PROPERTY_KINDS = ("state", "restore", "list", "get", "touch", "look", "peekdb", "commit", "abort", "reopen", "crash")


def _split_histories(cases, impl, model):
    """-> list of (hist_index, [(lineno, case, impl, model)])"""
    hs = []
    cur = None
    for i, c in enumerate(cases):
        a = impl[i] if i < len(impl) else "<missing>"
        b = model[i] if i < len(model) else "<missing>"
        if c.startswith("H "):
            cur = (int(c.split()[1]), [])
            hs.append(cur)
        elif c.startswith("CFG"):
            continue
        elif cur is not None:
            cur[1].append((i + 1, c, a, b))
    return hs


def _is_property_line(case, a, b):
    op = case.split(" ")[0]
    if a.startswith("state") or b.startswith("state"):
        return "contents differ from the contents the property requires"
    if op == "restore":
        if a == "ok" and b == "err invalid":
            return "a savepoint that must be unusable (invalidated / deleted / dropped) was restored"
        if a.startswith("err") and b == "ok":
            return "a savepoint that must still be restorable was rejected"
        if a.startswith("other"):
            return "restore failed with a storage-level error or panic"
    if op == "list":
        return "list_persistent_savepoints differs from the savepoints that must exist"
    if op == "get":
        return "get_persistent_savepoint disagrees about the existence of a persistent savepoint"
    if a.startswith("other"):
        return "operation failed with an unexpected error or panic"
    return None


def _read(ctx, name):
    with open(os.path.join(ctx.workdir, name)) as f:
        return f.read().split("\n")


def _strip(l):
    while l and l[-1] == "":
        l.pop()
    return l


def analyse(ctx, n, tag="", only=None):
    """Run harness + model, classify. Returns dict(stats, s2_diffs, nviol)."""
    res = {"ok": False, "detail": None, "s2": [], "stats": "", "ops": 0, "nontrivial": 0, "samples": [], "viol": 0}
    rc, out = ctx.harness("c07", [n] + ([only] if only is not None else []))
    if rc != 0:
        res["detail"] = "harness failed rc=%s: %s" % (rc, (out or "")[-1500:])
        return res
    res["stats"] = out.strip()
    m = re.search(r"histories=(\d+) ops=(\d+) distinct_nontrivial=(\d+)", out)
    res["ops"], res["nontrivial"] = int(m.group(2)), int(m.group(3))
    rc2, err = ctx.driver("c07", "cases.txt", "model.txt")
    if rc2 != 0:
        res["detail"] = "model driver failed rc=%s: %s" % (rc2, err)
        return res
    cases, impl, model = _strip(_read(ctx, "cases.txt")), _strip(_read(ctx, "impl.txt")), _strip(_read(ctx, "model.txt"))
    tokens = {}
    for l in _strip(_read(ctx, "tokens.txt")):
        h, t, d = l.split(" ")
        tokens[(int(h), t)] = d
    hs = _split_histories(cases, impl, model)
    if hs:
        res["samples"] = [{"history": hs[0][0], "ops": [c for (_, c, _, _) in hs[0][1][:25]],
                           "impl_and_model": [a for (_, _, a, _) in hs[0][1][:25]]}]
    cmd = "VERIF_SEED=%d VERIF_TIER=%s harness bin c07 %d <history>" % (ctx.seed, ctx.tier, n)
    for (hi, lines) in hs:
        first = None
        for k, (ln, c, a, b) in enumerate(lines):
            if a == b:
                continue
            if first is None:
                first = (k, ln, c, a, b)
            why = _is_property_line(c, a, b)
            if why:
                def tok(x):
                    mm = re.match(r"state (\d+)", x)
                    return tokens.get((hi, mm.group(1))) if mm else None
                ctx.violation(
                    "c07-%s" % c.split(" ")[0],
                    "history %d, operation #%d `%s`: %s (implementation: %r, required: %r)" % (hi, k + 1, c, why, a, b),
                    {"history": hi, "reproduce": cmd.replace("<history>", str(hi)), "operation_index": k + 1,
                     "operations": [x[1] for x in lines[:k + 1]],
                     "implementation_answers": [x[2] for x in lines[:k + 1]],
                     "model_answers": [x[3] for x in lines[:k + 1]],
                     "impl_contents_digest": tok(a), "required_contents_digest": tok(b),
                     "first_difference_in_history": {"operation_index": first[0] + 1, "op": first[2], "impl": first[3], "model": first[4]},
                     "format": "one operation per line as in harness/src/bin/c07.rs; `state t` = token of the full contents of all tables"})
                res["viol"] += 1
                break
        else:
            if first is not None:
                res["s2"].append({"history": hi, "operation_index": first[0] + 1, "op": first[2], "impl": first[3], "model": first[4]})
    for l in _strip(_read(ctx, "viol.txt")):
        hi, what = l.split("\t", 1)
        hi = int(hi)
        ops = [x[1] for (h2, ls) in hs if h2 == hi for x in ls]
        kind = what.split(":")[0]
        ctx.violation("c07-%s" % kind, "history %d: %s" % (hi, what),
                      {"history": hi, "reproduce": cmd.replace("<history>", str(hi)), "operations": ops, "finding": what})
        res["viol"] += 1
    res["ok"] = True
    return res


REC_OKS = ("ok", "opaque", "first")


def _rec_log(ctx, n, steps, hist):
    """API-call log of one history of the rec batch (deterministic for a seed)"""
    ctx.harness("c07", ["rec", n, steps, "only", hist])
    p = os.path.join(ctx.workdir, "rhistory_logs.txt")
    return open(p).read().split("\n")[:400] if os.path.exists(p) else []


def rec_once(ctx, n, steps, only=None):
    res = {"ok": True, "detail": None, "head": "", "s3fail": [], "s2bad": [], "rust": [], "states": 0, "s2checked": 0,
           "restores_checked": 0}
    rc, out = ctx.harness("c07", ["rec", n, steps] + (["only", only] if only is not None else []))
    if rc != 0:
        res["ok"], res["detail"] = False, "harness c07 rec failed rc=%s: %s" % (rc, (out or "")[-1500:])
        return res
    res["head"] = out
    rc2, err = ctx.driver("c07r", "rtrace.txt", "rverdict.txt")
    if rc2 != 0:
        res["ok"], res["detail"] = False, "record-model driver failed rc=%s: %s" % (rc2, err)
        return res
    for line in open(os.path.join(ctx.workdir, "rverdict.txt")):
        parts = line.split()
        if len(parts) != 4:
            continue
        label, s3, s2, rr = parts[0], parts[1][3:], parts[2][3:], parts[3][2:]
        res["states"] += 1
        if s3 != "ok":
            res["s3fail"].append((label, s3))
        if s2 not in REC_OKS:
            res["s2bad"].append((label, "step2 vs implementation: " + s2))
        elif rr not in ("-", "ok"):
            res["s2bad"].append((label, "record-based restore vs implementation: " + rr))
        if s2 == "ok":
            res["s2checked"] += 1
        if rr == "ok":
            res["restores_checked"] += 1
    rv = open(os.path.join(ctx.workdir, "rrust_viol.txt")).read().strip()
    res["rust"] = [l for l in rv.split("\n") if l]
    return res


def _rec_hist(label):
    m = re.match(r"h(\d+)\.(\d+):", label)
    return (int(m.group(1)), int(m.group(2))) if m else (None, None)


def rec_report(ctx, n, steps, res):
    """S3 / direct failures of the rec batch -> replayable violations"""
    seen = set()
    for label, what in res["s3fail"]:
        h, st = _rec_hist(label)
        first = what.split(":", 1)[1].split(",")[0] if ":" in what else what
        key = "c07-rec-%s" % re.sub(r"\(.*", "", first)
        if key in seen:
            continue
        seen.add(key)
        ctx.violation(key,
                      "allocation-record / page-ownership invariant violated on the implementation after `%s`: failing conjunct(s): %s"
                      % (label, what),
                      {"mode": "rec", "histories": n, "steps": steps, "history": h, "step": st, "state_label": label,
                       "failing_conjuncts": what, "api_calls": _rec_log(ctx, n, steps, h),
                       "reproduce": "VERIF_SEED=%d harness bin c07 rec %d %d only %s" % (ctx.seed, n, steps, h)})
    for v in res["rust"]:
        m = re.match(r"h(\d+)", v)
        h = int(m.group(1)) if m else None
        kind = re.sub(r"[0-9]+", "N", re.sub(r"^h\d+( s\d+)?( after `[^`]*`)?: ", "", v))[:50]
        key = "c07-recdirect-%s" % re.sub(r"[^A-Za-z]+", "_", kind)
        if key in seen:
            continue
        seen.add(key)
        ctx.violation(key, "direct check on the implementation failed: " + v,
                      {"mode": "rec", "histories": n, "steps": steps, "history": h, "message": v,
                       "api_calls": _rec_log(ctx, n, steps, h) if h is not None else [],
                       "reproduce": "VERIF_SEED=%d harness bin c07 rec %d %d only %s" % (ctx.seed, n, steps, h)})


def _replay_target(ctx):
    """--replay <file>: re-run exactly the history the replay file names (same seed, same batch size)."""
    if not getattr(ctx, "replay", None):
        return None
    import json
    o = json.load(open(ctx.replay))
    if o.get("mode") == "rec":
        ctx.seed = int(o.get("seed", ctx.seed))
        return ("rec", int(o["histories"]), int(o["steps"]), o.get("history"))
    m = re.search(r"bin c07 (\d+) (\d+)", o.get("reproduce", ""))
    ctx.seed = int(o.get("seed", ctx.seed))
    return (int(m.group(1)), int(m.group(2))) if m else None


def run(ctx):
    s1 = ctx.proof_obligations()
    n = 260 if ctx.quick else 3500
    rn, rsteps = (200, 40) if ctx.quick else (4000, 60)
    rp = _replay_target(ctx)
    if rp and rp[0] == "rec":
        rn, rsteps = rp[1], rp[2]
        r = {"ok": True, "detail": None, "s2": [], "stats": "", "ops": 0, "nontrivial": 0, "samples": [], "viol": 0}
        rr = rec_once(ctx, rn, rsteps, only=rp[3])
    else:
        r = analyse(ctx, rp[0], only=rp[1]) if rp else analyse(ctx, n)
        rr = rec_once(ctx, rn, rsteps) if not rp else None
    s2_ok, detail, searched = True, None, None
    if not r["ok"]:
        s2_ok, detail = False, r["detail"]
    elif r["s2"]:
        s2_ok, detail = False, {"bookkeeping_differences": r["s2"][:5], "count": len(r["s2"])}
    rec_s2_bad = False
    if rr is not None:
        if not rr["ok"]:
            s2_ok, detail = False, rr["detail"]
        else:
            rec_report(ctx, rn, rsteps, rr)
            if rr["s2bad"]:
                rec_s2_bad = True
                s2_ok = False
                detail = {"allocation_record_differences": rr["s2bad"][:5], "count": len(rr["s2bad"]),
                          "api_calls": _rec_log(ctx, rn, rsteps, _rec_hist(rr["s2bad"][0][0])[0])[:120],
                          "previous_detail": detail}
    if (not s1["ok"] or r["s2"]) and not ctx.violations and r["ok"] and not (rp and rp[0] == "rec"):
        # directed search: many more histories from derived seeds
        tried = 0
        base = ctx.seed
        for k in range(1, 5 if ctx.quick else 9):
            ctx.seed = base * 1000 + k
            sr = analyse(ctx, n * 2, tag="search")
            tried += sr["ops"]
            if ctx.violations:
                break
        ctx.seed = base
        searched = "directed search: %d more operations over derived seeds" % tried
    if (rec_s2_bad or (not s1["ok"] and rr is not None and rr["ok"])) and not ctx.violations:
        # the record model and the implementation differ but no checked invariant failed so far: a larger budget
        # of histories (same generator, more and longer) looking for an S3 / direct failure
        big = rec_once(ctx, rn * 4, rsteps + 20)
        searched = (searched + "; " if searched else "") + "re-ran %d record histories x %d steps: %d S3 failures, %d direct failures" % (
            rn * 4, rsteps + 20, len(big["s3fail"]), len(big["rust"]))
        if big["ok"]:
            rec_report(ctx, rn * 4, rsteps + 20, big)
    recstates = rr["states"] if rr and rr["ok"] else 0
    mrec = re.search(r"distinct_situations=(\d+) histories_with_record_restore=(\d+)", rr["head"]) if rr and rr["ok"] else None
    cov = {
        "evaluations": r["ops"] + recstates, "distinct_nontrivial": r["nontrivial"] + (int(mrec.group(2)) if mrec else 0),
        "rec_states_checked_by_rinv_checkb_and_own_checkb": recstates,
        "rec_transitions_equal_to_step2": rr["s2checked"] if rr and rr["ok"] else 0,
        "rec_restores_equal_to_record_based_restore": rr["restores_checked"] if rr and rr["ok"] else 0,
        "rec_distinct_situations": int(mrec.group(1)) if mrec else 0,
        "rec_input_distribution": (rr["head"].strip() if rr and rr["ok"] else ""),
        "rule": "random histories (25-85 ops + cleanup) over begin/durability/2PC/quick-repair flags/data writes/ephemeral+persistent savepoint/"
                "get/delete/restore/list/commit/abort/drop/clean reopen/crash image (all, none, subsets of unsynced writes)/check_integrity on 512-1024 B pages; "
                "non-trivial = distinct history with at least one successful restore of a savepoint created in that history; "
                "record batch: random + directed histories (begin/table ops/durability/quick-repair/savepoints/restore incl. twice per txn and after "
                "non-durable commits/delete/drop/abort/reopen, then the no-leak schedule), one evaluation = one observed (ownership state, records) "
                "after an API call, non-trivial = history with a restore that had allocation records or tracker pages to consult",
        "samples": r["samples"], "traces_validated_against_impl": r["ops"] + (rr["s2checked"] if rr and rr["ok"] else 0),
        "input_distribution": r["stats"],
        "trusted_base": ["Coq 8.16.1 kernel + vm_compute", "harness/src/bin/c07.rs + harness/src/rvdb.rs (generator, contents dump, crash images)",
                         "extraction (ExtrOcamlBasic only) + ocaml/c07_driver.ml, ocaml/c07r_driver.ml (parsing, set comparison)",
                         "harness/src/c07_rec.rs + harness/src/own_util.rs (abstraction of H3 snapshots to page-id sets and record tables)",
                         "H3 hooks in /repo (read-only snapshots, redb's own page walkers) for the space oracles",
                         "contents are compared through the public read API (a defect common to reader and writer of the same bytes is C04/C10's subject)"],
    }
    return ctx.finish("proof", cov,
                      assumptions=["data contents are opaque tokens in the savepoint model; pages and allocation records are modelled in coq/Txn/Own.v + AllocRec.v "
                                   "(b-tree page churn is an oracle there, record pagination abstracted); that the crate behaves like these models is validated per run",
                                   "single-threaded histories (one write transaction at a time, savepoint ops from its thread)",
                                   "crash images are built at API-call boundaries from the recorded op stream"],
                      s2_ok=s2_ok, s2_detail=detail, searched=searched)
