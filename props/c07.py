"""C07 -- Savepoints restore exactly the captured state (DESIGN.md section 5 C07, design.d/C07.md).

S1  coq/Props/C07.v  (model coq/Savepoint/Model.v, proofs coq/Savepoint/ModelP.v)
S2  harness/src/bin/c07.rs runs random savepoint histories on the real crate; the extracted model
    (ocaml/c07_driver.ml) answers the same operation list; every line is compared (results, ids,
    tracker bookkeeping from the H3 snapshot).
S3  the lines that ARE the property (contents after restore+commit / abort / reopen / crash, usability of
    later savepoints, listing / restorability of persistent savepoints) plus the space oracles the harness
    evaluates itself (page-ownership equation after every transaction boundary, nothing pending after
    cleanup, tracker references released, clean check_integrity).
"""
import os
import re

PROPERTY_KINDS = ("state", "restore", "list", "get", "touch", "look", "peekdb", "commit", "abort", "reopen", "crash")


def _split_histories(cases, impl, model):
    """-> list of (hist_index, [(lineno, case, impl, model)])"""
    hs = []
    cur = None
    for i, c in enumerate(cases):
        a = impl[i] if i < len(impl) else "<missing>"
        b = model[i] if i < len(model) else "<missing>"
        if c.startswith("H "):
            cur = (int(c.split()[1]), [])
            hs.append(cur)
        elif c.startswith("CFG"):
            continue
        elif cur is not None:
            cur[1].append((i + 1, c, a, b))
    return hs


def _is_property_line(case, a, b):
    op = case.split(" ")[0]
    if a.startswith("state") or b.startswith("state"):
        return "contents differ from the contents the property requires"
    if op == "restore":
        if a == "ok" and b == "err invalid":
            return "a savepoint that must be unusable (invalidated / deleted / dropped) was restored"
        if a.startswith("err") and b == "ok":
            return "a savepoint that must still be restorable was rejected"
        if a.startswith("other"):
            return "restore failed with a storage-level error or panic"
    if op == "list":
        return "list_persistent_savepoints differs from the savepoints that must exist"
    if op == "get":
        return "get_persistent_savepoint disagrees about the existence of a persistent savepoint"
    if a.startswith("other"):
        return "operation failed with an unexpected error or panic"
    return None


def _read(ctx, name):
    with open(os.path.join(ctx.workdir, name)) as f:
        return f.read().split("\n")


def _strip(l):
    while l and l[-1] == "":
        l.pop()
    return l


def analyse(ctx, n, tag="", only=None):
    """Run harness + model, classify. Returns dict(stats, s2_diffs, nviol)."""
    res = {"ok": False, "detail": None, "s2": [], "stats": "", "ops": 0, "nontrivial": 0, "samples": [], "viol": 0}
    rc, out = ctx.harness("c07", [n] + ([only] if only is not None else []))
    if rc != 0:
        res["detail"] = "harness failed rc=%s: %s" % (rc, (out or "")[-1500:])
        return res
    res["stats"] = out.strip()
    m = re.search(r"histories=(\d+) ops=(\d+) distinct_nontrivial=(\d+)", out)
    res["ops"], res["nontrivial"] = int(m.group(2)), int(m.group(3))
    rc2, err = ctx.driver("c07", "cases.txt", "model.txt")
    if rc2 != 0:
        res["detail"] = "model driver failed rc=%s: %s" % (rc2, err)
        return res
    cases, impl, model = _strip(_read(ctx, "cases.txt")), _strip(_read(ctx, "impl.txt")), _strip(_read(ctx, "model.txt"))
    tokens = {}
    for l in _strip(_read(ctx, "tokens.txt")):
        h, t, d = l.split(" ")
        tokens[(int(h), t)] = d
    hs = _split_histories(cases, impl, model)
    if hs:
        res["samples"] = [{"history": hs[0][0], "ops": [c for (_, c, _, _) in hs[0][1][:25]],
                           "impl_and_model": [a for (_, _, a, _) in hs[0][1][:25]]}]
    cmd = "VERIF_SEED=%d VERIF_TIER=%s harness bin c07 %d <history>" % (ctx.seed, ctx.tier, n)
    for (hi, lines) in hs:
        first = None
        for k, (ln, c, a, b) in enumerate(lines):
            if a == b:
                continue
            if first is None:
                first = (k, ln, c, a, b)
            why = _is_property_line(c, a, b)
            if why:
                def tok(x):
                    mm = re.match(r"state (\d+)", x)
                    return tokens.get((hi, mm.group(1))) if mm else None
                ctx.violation(
                    "c07-%s" % c.split(" ")[0],
                    "history %d, operation #%d `%s`: %s (implementation: %r, required: %r)" % (hi, k + 1, c, why, a, b),
                    {"history": hi, "reproduce": cmd.replace("<history>", str(hi)), "operation_index": k + 1,
                     "operations": [x[1] for x in lines[:k + 1]],
                     "implementation_answers": [x[2] for x in lines[:k + 1]],
                     "model_answers": [x[3] for x in lines[:k + 1]],
                     "impl_contents_digest": tok(a), "required_contents_digest": tok(b),
                     "first_difference_in_history": {"operation_index": first[0] + 1, "op": first[2], "impl": first[3], "model": first[4]},
                     "format": "one operation per line as in harness/src/bin/c07.rs; `state t` = token of the full contents of all tables"})
                res["viol"] += 1
                break
        else:
            if first is not None:
                res["s2"].append({"history": hi, "operation_index": first[0] + 1, "op": first[2], "impl": first[3], "model": first[4]})
    for l in _strip(_read(ctx, "viol.txt")):
        hi, what = l.split("\t", 1)
        hi = int(hi)
        ops = [x[1] for (h2, ls) in hs if h2 == hi for x in ls]
        kind = what.split(":")[0]
        ctx.violation("c07-%s" % kind, "history %d: %s" % (hi, what),
                      {"history": hi, "reproduce": cmd.replace("<history>", str(hi)), "operations": ops, "finding": what})
        res["viol"] += 1
    res["ok"] = True
    return res


def _replay_target(ctx):
    """--replay <file>: re-run exactly the history the replay file names (same seed, same batch size)."""
    if not getattr(ctx, "replay", None):
        return None
    import json
    o = json.load(open(ctx.replay))
    m = re.search(r"bin c07 (\d+) (\d+)", o.get("reproduce", ""))
    ctx.seed = int(o.get("seed", ctx.seed))
    return (int(m.group(1)), int(m.group(2))) if m else None


def run(ctx):
    s1 = ctx.proof_obligations()
    n = 260 if ctx.quick else 3500
    rp = _replay_target(ctx)
    r = analyse(ctx, rp[0], only=rp[1]) if rp else analyse(ctx, n)
    s2_ok, detail, searched = True, None, None
    if not r["ok"]:
        s2_ok, detail = False, r["detail"]
    elif r["s2"]:
        s2_ok, detail = False, {"bookkeeping_differences": r["s2"][:5], "count": len(r["s2"])}
    if (not s1["ok"] or not s2_ok) and not ctx.violations and r["ok"]:
        # directed search: many more histories from derived seeds
        tried = 0
        base = ctx.seed
        for k in range(1, 5 if ctx.quick else 9):
            ctx.seed = base * 1000 + k
            rr = analyse(ctx, n * 2, tag="search")
            tried += rr["ops"]
            if ctx.violations:
                break
        ctx.seed = base
        searched = "directed search: %d more operations over derived seeds" % tried
    cov = {
        "evaluations": r["ops"], "distinct_nontrivial": r["nontrivial"],
        "rule": "random histories (25-85 ops + cleanup) over begin/durability/2PC/quick-repair flags/data writes/ephemeral+persistent savepoint/"
                "get/delete/restore/list/commit/abort/drop/clean reopen/crash image (all, none, subsets of unsynced writes)/check_integrity on 512-1024 B pages; "
                "non-trivial = distinct history with at least one successful restore of a savepoint created in that history",
        "samples": r["samples"], "traces_validated_against_impl": r["ops"],
        "input_distribution": r["stats"],
        "trusted_base": ["Coq 8.16.1 kernel + vm_compute", "harness/src/bin/c07.rs + harness/src/rvdb.rs (generator, contents dump, crash images)",
                         "extraction (ExtrOcamlBasic only) + ocaml/c07_driver.ml",
                         "H3 hooks in /repo (read-only snapshots, redb's own page walkers) for the space oracles",
                         "contents are compared through the public read API (a defect common to reader and writer of the same bytes is C04/C10's subject)"],
    }
    return ctx.finish("proof", cov,
                      assumptions=["data contents are opaque tokens in the model; pages are not modelled (space claims are validated per run through H3, proved in C06's model)",
                                   "single-threaded histories (one write transaction at a time, savepoint ops from its thread)",
                                   "crash images are built at API-call boundaries from the recorded op stream"],
                      s2_ok=s2_ok, s2_detail=detail, searched=searched)
