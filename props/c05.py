"""C05 -- Abandoned or failed transactions leave no trace (DESIGN.md section 5, C05; as built: design.d/C05.md).

S1  coq/Props/C05.v: abort_restores_eq (every state with Inv, every body, by induction), the poisoning state
    machine (partial_op_poisons, failed_call_blocks, stickiness, poisoned_never_commits,
    half_applied_never_commits, abandoned_restores for abort / Drop / poisoned commit after any call sequence
    with failures at any position).
S3  the property itself on the real crate (harness/src/bin/c05.rs):
    mode A  H3 ownership snapshot + full logical dump + savepoint validity before begin_write == after the end
            of the abandoned transaction (abort / drop / commit of the poisoned transaction, which must return
            TransactionPoisoned); the next commit contains nothing of the body; own_checkb (C06's proved
            checker) on every observed state; the theorem's right-hand side `bump (run (pin_part body) pre)`
            evaluated by the extracted model must equal the observed post state.
    mode B  k-th backend call inside the transaction fails: commit is never Ok, after drop + reopen the
            contents and persistent savepoints are the pre-transaction ones, own_checkb holds, a new commit works.
    mode C  (harness/src/bin/c05c.rs) LOGICAL failures by corrupted reads: a storage backend serves damaged bytes
            for exactly one read (selected bytes of every page an operation reads) while armed; the operation
            fails with Err(Corrupted) or a decoder panic; the transaction is committed anyway: either the commit
            is refused or the committed state equals the state in which the failed operation did not happen
            (contents, persistent savepoints stored / in the tracker, reference counts, restorability,
            own_checkb), in the session and after a reopen; sibling run: abort.  Judged only when everything
            the transaction holds after the failed call is byte-identical to what it held before or holds
            after the fault-free call (no damaged byte absorbed: garbage-in-garbage-out is C12's subject).
S2  every observed transition (incl. the abort from the half-applied state) equals Own.v's `step`
    (ocaml/c06_driver.ml); observed poisoned / latched flags and commit results equal the extracted
    `flags_after` / `commit_result` of Poison.v, and for calls failed by a corrupted read the observed
    (unreported part staged?, poisoned?) passes the extracted `corrupt_outcome_ok` (ocaml/c05_driver.ml).
"""
import json
import os
import re

from props import own_common

# conjuncts of own_checkb that speak about the working view of the live write transaction: they are not
# expected to hold while the transaction holds half-applied state (that is what poisoning is for)
HALF_OK = ("O1-working", "O2/O3-pin", "O2-durable-data-covered", "O2-durable-system-covered", "latest-in-working")

QUICK = {"A": (500, 24), "B": (40, 12), "C": (1, 3)}
THOROUGH = {"A": (6000, 30), "B": (100, 0), "C": (3, 10)}


def _filter_half(s3fail):
    out = []
    for label, what in s3fail:
        if "!half" in label:
            conj = re.split(r",(?![^()]*\))", what.split(":", 1)[1]) if ":" in what else [what]
            if all(any(c.startswith(p) for p in HALF_OK) for c in conj):
                continue
        out.append((label, what))
    return out


def _cases_verdict(ctx, infile, outfile):
    """run the C05 model driver; returns (rows, err) with rows = [(label, s3, flags, end)]"""
    rc, err = ctx.driver("c05", infile, outfile)
    if rc != 0:
        return None, "c05 model driver failed rc=%s: %s" % (rc, err)
    rows = []
    for line in open(os.path.join(ctx.workdir, outfile)):
        p = line.split()
        if len(p) == 4:
            rows.append((p[0], p[1][3:], p[2][6:], p[3][4:]))
    return rows, None


def _block(ctx, fname, label):
    """the block of a cases file belonging to `label` (for replays)"""
    out, on = [], False
    for line in open(os.path.join(ctx.workdir, fname)):
        if line.startswith("R "):
            on = line.split()[1] == label
        if on:
            out.append(line.rstrip("\n")[:2000])
    return out[:200]


def _crash(ctx, fname, mode, extra):
    """the harness process died (redb panicked in a destructor while unwinding from a panic: not catchable):
    report the history / run in progress, with the API calls made so far, as a concrete failing input"""
    p = os.path.join(ctx.workdir, fname)
    if not os.path.exists(p):
        return False
    lines = open(p).read().split("\n")
    start = max([i for i, l in enumerate(lines) if l and not l.startswith("  ")] or [0])
    head, calls = lines[start], [l for l in lines[start + 1:] if l]
    m = re.match(r"(history|body|run) (\S+)", head)
    if not m:
        return False
    obj = {"harness": "c05", "mode": mode, "in_progress": head, "api_calls": calls[-300:]}
    obj.update(extra)
    mm = re.match(r"b?(\d+)", m.group(2))
    if mm:
        obj["history" if mode == "A" else "body"] = int(mm.group(1))
    ctx.violation("c05-direct-engine-aborted-the-process",
                  "the engine aborted the process (a panic inside a destructor while unwinding from a panic) during %s, "
                  "last API calls: %s" % (head, "; ".join(c.strip() for c in calls[-6:])), obj)
    return True


def _run_a(ctx, n, steps, extra=()):
    """own_common._run_once, except that a harness process that died (abort inside the engine) does not end
    the analysis: the outputs are written history by history, so everything before the crash is analysed"""
    res = {"ok": True, "detail": None, "head": "", "s3fail": [], "s2bad": [], "rust": [], "states": 0, "s2checked": 0,
           "crashed": False}
    rc, out = ctx.harness("c05", [n, steps] + list(extra))
    if rc is None:
        res["ok"], res["detail"] = False, "harness c05 failed rc=%s: %s" % (rc, (out or "")[-1500:])
        return res
    res["head"] = out or ""
    if rc != 0:
        res["crashed"] = True
        res["detail"] = "harness c05 died rc=%s: %s" % (rc, (out or "")[-800:])
        if not _crash(ctx, "progress.txt", "A", {"histories": n, "steps": steps}):
            res["ok"] = False
            return res
    rc2, err = ctx.driver("c06", "trace.txt", "verdict.txt")
    if rc2 != 0:
        res["ok"], res["detail"] = False, "model driver failed rc=%s: %s" % (rc2, err)
        return res
    for line in open(os.path.join(ctx.workdir, "verdict.txt")):
        parts = line.split()
        if len(parts) != 3:
            continue
        label, s3, s2 = parts[0], parts[1][3:], parts[2][3:]
        res["states"] += 1
        if s3 != "ok":
            res["s3fail"].append((label, s3))
        if s2 not in own_common.OKS:
            res["s2bad"].append((label, s2))
        if s2 == "ok":
            res["s2checked"] += 1
    rv = open(os.path.join(ctx.workdir, "rust_viol.txt")).read().strip()
    res["rust"] = [l for l in rv.split("\n") if l]
    return res


def _mode_a(ctx, n, steps, extra=()):
    res = _run_a(ctx, n, steps, extra)
    res["model_s3"], res["flags_bad"], res["rounds"], res["flag_calls"] = [], [], 0, 0
    if not res["ok"]:
        return res
    res["s3fail"] = _filter_half(res["s3fail"])
    rows, err = _cases_verdict(ctx, "c05_cases.txt", "c05_verdict.txt")
    if rows is None:
        res["ok"], res["detail"] = False, err
        return res
    res["rounds"] = len(rows)
    for label, s3, flags, end in rows:
        if s3 != "ok":
            res["model_s3"].append((label, s3, _block(ctx, "c05_cases.txt", label)))
        if flags != "ok" or end != "ok":
            res["flags_bad"].append((label, "FLAGS=%s END=%s" % (flags, end)))
    res["flag_calls"], res["cases_head"] = 0, []
    for i, l in enumerate(open(os.path.join(ctx.workdir, "c05_cases.txt"))):
        if l.startswith("C "):
            res["flag_calls"] += 1
        if i < 14:
            res["cases_head"].append(l.rstrip("\n")[:500])
    return res


def _report_a(ctx, n, steps, res):
    seen = set()
    for label, s3, block in res["model_s3"]:
        m = re.match(r"h(\d+)\.r(\d+)", label)
        h = int(m.group(1)) if m else None
        key = "c05-abandoned-state-differs"
        if key in seen:
            continue
        seen.add(key)
        ctx.violation(key,
                      "after the abandoned write transaction %s the observed ownership state is not the state before "
                      "begin_write (theorem abort_restores_eq evaluated by the extracted model: bump (run (pin_part body) pre) "
                      "vs observed post state): %s" % (label, s3),
                      {"harness": "c05", "mode": "A", "histories": n, "steps": steps, "history": h, "round": label,
                       "case_block": block, "api_calls": own_common._history_log(ctx, "c05", n, steps, h) if h is not None else [],
                       "replay_cmd": "VERIF_SEED=%d ./check C05 --replay <this file>" % ctx.seed})
    # the property's own oracles first; at most a dozen distinct direct failures are written up (every one
    # costs a re-run of its history for the API-call log)
    rust, keys = [], set()
    for v in sorted(res["rust"], key=lambda v: (0 if "C05:" in v else 1)):
        kind = re.sub(r"[0-9]+", "N", re.sub(r"^h\d+( s\d+)?( after `[^`]*`)?: ", "", v))[:50]
        if kind not in keys and len(keys) < 12:
            keys.add(kind)
            rust.append(v)
    res = dict(res)
    res["rust"] = rust
    res["s3fail"] = res["s3fail"][:50]
    own_common._report(ctx, "C05", "c05", n, steps, res)


def _mode_b(ctx, nb, samples, extra=()):
    out = {"ok": True, "detail": None, "head": "", "viol": [], "s3fail": [], "flags_bad": [], "runs": 0, "fired": 0,
           "states": 0, "logs": "", "crashed": False}
    rc, head = ctx.harness("c05", ["faults", nb, samples] + list(extra))
    if rc is None:
        out["ok"], out["detail"] = False, "harness c05 faults failed rc=%s: %s" % (rc, (head or "")[-1500:])
        return out
    out["head"] = head or ""
    if rc != 0:
        out["crashed"] = True
        out["detail"] = "harness c05 faults died rc=%s: %s" % (rc, (head or "")[-800:])
        if not _crash(ctx, "fault_progress.txt", "B", {"bodies": nb, "samples": samples}):
            out["ok"] = False
            return out
    m = re.search(r"runs=(\d+) fired=(\d+)", head)
    if m:
        out["runs"], out["fired"] = int(m.group(1)), int(m.group(2))
    rc2, err = ctx.driver("c06", "ftrace.txt", "fverdict.txt")
    if rc2 != 0:
        out["ok"], out["detail"] = False, "model driver failed on ftrace rc=%s: %s" % (rc2, err)
        return out
    for line in open(os.path.join(ctx.workdir, "fverdict.txt")):
        p = line.split()
        if len(p) == 3:
            out["states"] += 1
            if p[1][3:] != "ok":
                out["s3fail"].append((p[0], p[1][3:]))
    rows, err = _cases_verdict(ctx, "fcases.txt", "fcases_verdict.txt")
    if rows is None:
        out["ok"], out["detail"] = False, err
        return out
    for label, s3, flags, end in rows:
        if flags != "ok" or end != "ok":
            out["flags_bad"].append((label, "FLAGS=%s END=%s" % (flags, end)))
    v = open(os.path.join(ctx.workdir, "fault_viol.txt")).read().strip()
    out["viol"] = [l for l in v.split("\n") if l]
    out["logs"] = open(os.path.join(ctx.workdir, "fault_logs.txt")).read()
    return out


def _body_log(logs, body, tag=None):
    """API-call log of one body (and of one faulted run of it) from fault_logs.txt"""
    out, on = [], False
    for line in logs.split("\n"):
        if line.startswith("body ") or line.startswith("run "):
            on = line.startswith("body %d " % body) or (tag is not None and line.startswith("run %s:" % tag))
        if on:
            out.append(line)
    return out[:300]


def _report_b(ctx, nb, samples, out):
    seen = set()
    for v in out["viol"]:
        m = re.match(r"b(\d+)\.(k\d+\+?|count)", v)
        body = int(m.group(1)) if m else None
        tag = m.group(0) if m else None
        msg = re.sub(r"^\S+: (h\d+ s\d+ after `[^`]*`: )?", "", v)
        key = "c05-fault-%s" % re.sub(r"[^A-Za-z]+", "_", re.sub(r"[0-9]+", "N", msg))[:50]
        if key in seen:
            continue
        seen.add(key)
        ctx.violation(key, "fault point inside an abandoned transaction: " + v[:1500],
                      {"harness": "c05", "mode": "B", "bodies": nb, "samples": samples, "body": body, "run": tag, "message": v,
                       "fail_mode": "k-th backend call after begin_write fails (k from the run tag; '+' = every later call too)",
                       "api_calls": _body_log(out["logs"], body, tag) if body is not None else [],
                       "replay_cmd": "VERIF_SEED=%d ./check C05 --replay <this file>" % ctx.seed})
    for label, what in out["s3fail"]:
        m = re.match(r"h(\d+)\.", label)
        body = int(m.group(1)) if m else None
        first = what.split(":", 1)[1].split(",")[0] if ":" in what else what
        key = "c05-fault-own_checkb-%s" % re.sub(r"\(.*", "", first)
        if key in seen:
            continue
        seen.add(key)
        ctx.violation(key, "page-ownership invariant violated after a failed transaction and reopen (`%s`): %s" % (label, what),
                      {"harness": "c05", "mode": "B", "bodies": nb, "samples": samples, "body": body, "state_label": label,
                       "failing_conjuncts": what, "api_calls": _body_log(out["logs"], body) if body is not None else []})


def _mode_c(ctx, nimg, variants, extra=()):
    """corrupted reads (harness c05c): S3 lines, own_checkb on the observed states, flags against the model"""
    out = {"ok": True, "detail": None, "head": "", "viol": [], "s3fail": [], "flags_bad": [], "runs": 0, "failed": 0,
           "judged": 0, "distinct": 0, "aborts": 0, "states": 0, "blocks": 0, "ops": {}, "runlines": {}, "logs": [], "samples": []}
    rc, head = ctx.harness("c05c", ["run", nimg, variants] + list(extra))
    if rc is None or rc != 0:
        out["ok"], out["detail"] = False, "harness c05c failed rc=%s: %s" % (rc, (head or "")[-1500:])
        return out
    out["head"] = head or ""
    m = re.search(r"corrupt: images=\d+ runs=(\d+) failed_calls=(\d+) judged=(\d+) distinct_failure_situations=(\d+) process_aborts=(\d+)", head)
    if not m:
        out["ok"], out["detail"] = False, "harness c05c: no summary line: %s" % head[-500:]
        return out
    out["runs"], out["failed"], out["judged"], out["distinct"], out["aborts"] = (int(x) for x in m.groups())
    mo = re.search(r"corrupt_ops: (.*)", head)
    out["ops"] = dict((k, int(v)) for k, v in (kv.split("=") for kv in mo.group(1).split())) if mo else {}
    for line in open(os.path.join(ctx.workdir, "corrupt_runs.txt")):
        p = line.split()
        if len(p) > 2 and p[0] == "F":
            out["runlines"][p[1]] = line.rstrip("\n")
            if "res=ok" not in line and len(out["samples"]) < 6:
                out["samples"].append(line.rstrip("\n")[:400])
    out["logs"] = [l.rstrip("\n")[:3000] for l in open(os.path.join(ctx.workdir, "corrupt_logs.txt"))]
    rc2, err = ctx.driver("c06", "corrupt_trace.txt", "corrupt_verdict.txt")
    if rc2 != 0:
        out["ok"], out["detail"] = False, "model driver failed on corrupt_trace rc=%s: %s" % (rc2, err)
        return out
    for line in open(os.path.join(ctx.workdir, "corrupt_verdict.txt")):
        p = line.split()
        if len(p) == 3:
            out["states"] += 1
            if p[1][3:] != "ok":
                out["s3fail"].append((p[0], p[1][3:]))
    rows, err = _cases_verdict(ctx, "corrupt_cases.txt", "corrupt_cases_verdict.txt")
    if rows is None:
        out["ok"], out["detail"] = False, err
        return out
    out["blocks"] = len(rows)
    for label, s3, flags, end in rows:
        if flags != "ok" or end != "ok":
            out["flags_bad"].append((label, "FLAGS=%s END=%s" % (flags, end)))
    v = open(os.path.join(ctx.workdir, "corrupt_viol.txt")).read().strip()
    out["viol"] = [l for l in v.split("\n") if l]
    return out


def _report_c(ctx, nimg, variants, out):
    """S3 failures of the corrupted-read family.  Keys: c05-corrupt-half-applied-committed:<Op>:<class> when the commit
    after the failed call returned Ok, c05-corrupt-abandoned-state-differs:<Op>:<class> when it was refused / aborted
    (<class> = after-error | after-internal-panic)"""
    def where(tag):
        m = re.match(r"i(\d+)\.o(\d+)\.", tag)
        return (int(m.group(1)), int(m.group(2))) if m else (None, None)

    def obj(tag, msg):
        img, op = where(tag)
        logs = [l for l in out["logs"] if img is not None and (l.startswith("image %d:" % img) or l.startswith("image %d op %d " % (img, op)))]
        return {"harness": "c05c", "mode": "C", "images": nimg, "variants": variants, "image": img, "op": op, "run": tag,
                "run_line": out["runlines"].get(tag), "message": msg[:3000], "image_and_reads_of_the_operation": logs,
                "fault": "the read named in run_line (index/total, tree it belongs to, n-th read of that page, byte class, damage) "
                         "returned damaged bytes while the operation ran; storage healthy before and after",
                "replay_cmd": "VERIF_SEED=%d ./check C05 --replay <this file>" % ctx.seed}

    for v in out["viol"]:
        m = re.match(r"(\S+): \[(after-error|after-internal-panic)\] (\w+)", v)
        if not m:
            ctx.violation("c05-corrupt-harness", "corrupted-read family: " + v[:1500], {"harness": "c05c", "mode": "C", "images": nimg, "variants": variants, "message": v[:3000]})
            continue
        tag, cls, opname = m.groups()
        committed = "end=Commit:ok" in v
        key = "%s:%s:%s" % ("c05-corrupt-half-applied-committed" if committed else "c05-corrupt-abandoned-state-differs", opname, cls)
        what = ("an operation failed part-way because a read returned damaged bytes (%s), the transaction was committed anyway and "
                "commit() returned Ok, but the committed state is not the state in which the failed operation did not happen: "
                if committed else
                "an operation failed part-way because a read returned damaged bytes (%s); after the abort / refused commit the "
                "state is not the pre-transaction state: ") % ("Err(Corrupted)" if cls == "after-error" else "panic inside redb")
        ctx.violation(key, what + v[:1500], obj(tag, v))
    for label, what in out["s3fail"]:
        tag = label.split(":", 1)[0]
        rl = out["runlines"].get(tag, "")
        mo = re.search(r" op=([A-Za-z]+)", rl)
        opname = mo.group(1) if mo else "?"
        cls = "after-internal-panic" if "res=panic" in rl else "after-error"
        committed = "after_the_commit" in label
        key = "%s:%s:%s" % ("c05-corrupt-half-applied-committed" if committed else "c05-corrupt-abandoned-state-differs", opname, cls)
        ctx.violation(key, "page-ownership invariant (own_checkb, C06's proved checker) violated in state `%s` of the corrupted-read "
                      "family: %s" % (label, what), obj(tag, "own_checkb: " + what))


def run(ctx):
    ctx.proof_obligations()
    sizes = QUICK if ctx.quick else THOROUGH
    (n, steps), (nb, samples) = sizes["A"], sizes["B"]
    nimg, variants = sizes["C"]
    extra_a, extra_b, extra_c, do_a, do_b, do_c = (), (), (), True, True, True
    replay = getattr(ctx, "replay", None)
    if replay:
        rp = json.load(open(replay))
        if rp.get("mode") == "C":
            do_a = do_b = False
            nimg, variants = rp.get("images", nimg), rp.get("variants", variants)
            if rp.get("image") is not None:
                extra_c = ("only", rp["image"]) + ((rp["op"],) if rp.get("op") is not None else ())
        elif rp.get("mode") == "B":
            do_a = do_c = False
            nb, samples = rp.get("bodies", nb), rp.get("samples", samples)
            if rp.get("body") is not None:
                extra_b = ("only", rp["body"])
        else:
            do_b = do_c = False
            n, steps = rp.get("histories", n), rp.get("steps", steps)
            if rp.get("history") is not None:
                extra_a = ("only", rp["history"])
    cov = {"evaluations": 0, "distinct_nontrivial": 0}
    s2_ok, detail, searched = True, None, None
    s2_diffs = []
    if do_a:
        a = _mode_a(ctx, n, steps, extra_a)
        if not a["ok"]:
            s2_ok, detail = False, a["detail"]
        else:
            head = a["head"]
            m = re.search(r"abandoned_rounds=(\d+) nontrivial_rounds=(\d+) distinct_nontrivial_rounds=(\d+)", head)
            rounds, nontriv, distinct = (int(x) for x in m.groups()) if m else (0, 0, 0)
            mo = re.search(r"ops: (.*)", head)
            ops = dict((k, int(v)) for k, v in (kv.split("=") for kv in mo.group(1).split())) if mo else {}
            probes = ops.get("scratch_probe_txns", 0)
            cov["evaluations"] += rounds + probes
            cov["distinct_nontrivial"] += distinct
            cov["abandoned_transactions"] = rounds
            cov["abandoned_nontrivial"] = nontriv
            cov["scratch_probe_transactions_also_abandoned"] = probes
            m = re.search(r"histories=(\d+) states=(\d+) distinct_situations=(\d+) max_regions_in_use=(\d+)", head)
            if m:
                cov["histories"], cov["states_observed"] = int(m.group(1)), int(m.group(2))
                cov["distinct_state_situations"], cov["max_regions_in_use"] = int(m.group(3)), int(m.group(4))
            cov["ended_by"] = {k[9:]: v for k, v in ops.items() if k.startswith("ended_by_")}
            cov["poison_sites_hit"] = {k[12:]: v for k, v in ops.items() if k.startswith("poison_site_")}
            cov["failed_calls"] = {k[5:]: v for k, v in ops.items() if k.startswith("fail_")}
            cov["path_markers"] = {k: v for k, v in ops.items() if k.startswith("marker_") or k.startswith("rounds_") or k.startswith("note_")}
            cov["op_distribution"] = {k: v for k, v in ops.items() if not re.match(r"(ended_by_|poison_site_|fail_|marker_|rounds_|note_|scratch_)", k)}
            cov["states_checked_by_own_checkb"] = a["states"]
            cov["traces_validated_against_impl"] = a["s2checked"] + a["rounds"]
            cov["model_s3_blocks_checked"] = a["rounds"]
            cov["failed_calls_flag_checked"] = a["flag_calls"]
            cov["samples"] = a.get("cases_head", [])[:8]
            s2_diffs += [("A", l, w) for l, w in a["s2bad"]] + [("A", l, w) for l, w in a["flags_bad"]]
            _report_a(ctx, n, steps, a)
    if do_b:
        b = _mode_b(ctx, nb, samples, extra_b)
        if not b["ok"]:
            s2_ok, detail = False, b["detail"]
        else:
            cov["evaluations"] += b["runs"]
            m = re.search(r"distinct_fault_situations=(\d+)", b["head"])
            cov["distinct_nontrivial"] += int(m.group(1)) if m else 0
            cov["fault_runs"] = b["runs"]
            cov["fault_runs_where_the_fault_fired"] = b["fired"]
            m = re.search(r"bodies=(\d+) .*backend_calls_in_bodies=(\d+)", b["head"])
            if m:
                cov["fault_bodies"], cov["backend_calls_in_fault_free_bodies"] = int(m.group(1)), int(m.group(2))
            me = re.search(r"fault_ends: (.*)", b["head"])
            cov["fault_ends"] = dict((k, int(v)) for k, v in (kv.rsplit("=", 1) for kv in me.group(1).split())) if me else {}
            mo = re.search(r"fault_ops: (.*)", b["head"])
            fo = dict((k, int(v)) for k, v in (kv.split("=") for kv in mo.group(1).split())) if mo else {}
            cov["fault_failed_calls"] = {k[5:]: v for k, v in fo.items() if k.startswith("fail_")}
            cov["fault_poison_sites_hit"] = {k[12:]: v for k, v in fo.items() if k.startswith("poison_site_")}
            cov["states_checked_by_own_checkb_after_reopen"] = b["states"]
            s2_diffs += [("B", l, w) for l, w in b["flags_bad"]]
            _report_b(ctx, nb, samples, b)
    if do_c:
        c = _mode_c(ctx, nimg, variants, extra_c)
        if not c["ok"]:
            s2_ok, detail = False, c["detail"]
        else:
            cov["evaluations"] += c["failed"]
            cov["distinct_nontrivial"] += c["distinct"]
            cov["corrupt_read_runs"] = c["runs"]
            cov["corrupt_read_failed_calls"] = c["failed"]
            cov["corrupt_read_failed_calls_judged"] = c["judged"]
            cov["corrupt_read_commits_not_judged_because_damaged_bytes_may_have_been_absorbed"] = c["failed"] - c["judged"]
            cov["corrupt_read_process_aborts_after_damaged_reads"] = c["aborts"]
            cov["corrupt_read_states_checked_by_own_checkb"] = c["states"]
            cov["corrupt_read_failed_calls_flag_checked"] = c["blocks"]
            cov["corrupt_read_results_by_kind"] = {k[4:]: v for k, v in c["ops"].items() if k.startswith("res_")}
            cov["corrupt_read_ends"] = {k[4:]: v for k, v in c["ops"].items() if k.startswith("end_")}
            cov["corrupt_read_sites"] = {k[5:]: v for k, v in c["ops"].items() if k.startswith("site_")}
            cov["corrupt_read_damaged_bytes"] = {k[5:]: v for k, v in c["ops"].items() if k.startswith("byte_")}
            cov["traces_validated_against_impl"] = cov.get("traces_validated_against_impl", 0) + c["blocks"]
            cov.setdefault("samples", [])
            cov["samples"] = cov["samples"][:8] + c["samples"][:4]
            s2_diffs += [("C", l, w) for l, w in c["flags_bad"]]
            _report_c(ctx, nimg, variants, c)
    if s2_diffs and not ctx.violations and s2_ok:
        # model and implementation differ, but the property itself held on everything seen: directed search =
        # a larger budget of the same generators around the difference, looking for an S3 failure
        s2_ok = False
        detail = {"first_differences": s2_diffs[:6]}
        if s2_diffs[0][0] == "C":
            # directed search around the difference: every damage variant of the operation concerned
            m = re.match(r"i(\d+)\.o(\d+)\.", s2_diffs[0][1])
            if m:
                bigc = _mode_c(ctx, nimg, 0, ("only", int(m.group(1)), int(m.group(2))))
                searched = "re-ran image %s operation %s with every damage variant" % (m.group(1), m.group(2))
                if bigc["ok"]:
                    searched += ": %d fault runs, %d direct failures" % (bigc["runs"], len(bigc["viol"]) + len(bigc["s3fail"]))
                    _report_c(ctx, nimg, 0, bigc)
        elif s2_diffs[0][0] == "A":
            h = own_common._hist_of(s2_diffs[0][1])[0]
            if h is None:
                m = re.match(r"h(\d+)\.r", s2_diffs[0][1])
                h = int(m.group(1)) if m else None
            if h is not None:
                detail["api_calls"] = own_common._history_log(ctx, "c05", n, steps, h)[:150]
        big = _mode_a(ctx, n * 3, steps + 10) if s2_diffs[0][0] != "C" else {"ok": False}
        if s2_diffs[0][0] != "C":
            searched = "re-ran %d histories x %d steps" % (n * 3, steps + 10)
        if big["ok"]:
            searched += ": %d own_checkb failures, %d model-S3 differences, %d direct failures" % (
                len(big["s3fail"]), len(big["model_s3"]), len(big["rust"]))
            _report_a(ctx, n * 3, steps + 10, big)
        bigb = _mode_b(ctx, nb * 2, samples * 2) if s2_diffs[0][0] != "C" else {"ok": False}
        if bigb["ok"]:
            searched += "; %d fault runs: %d direct failures" % (bigb["runs"], len(bigb["viol"]) + len(bigb["s3fail"]))
            _report_b(ctx, nb * 2, samples * 2, bigb)
    cov["rule"] = ("one evaluation = one abandoned write transaction on the real crate (mode A: random preceding history, "
                   "random body, ended by abort / drop / commit of the poisoned transaction, incl. the scratch transactions "
                   "that probe savepoint validity by restore + abort; mode B: one run with the k-th backend call inside "
                   "the transaction failing, then drop + reopen; mode C: one operation that FAILED because one of its reads "
                   "returned damaged bytes, followed by commit anyway / abort, in the session and after a reopen) with the "
                   "full before/after comparison; "
                   "non-trivial = the body left uncommitted allocations, freed committed pages, staged savepoint "
                   "creations / deletions or a restore at the moment it was abandoned; distinct = distinct (end kind, "
                   "poisoned?, set of call kinds in the body, #pins, pending non-durable?, DATA_FREED / unpersisted "
                   "records non-empty?, restored?) resp. (end kind, result, poisoned?, fail mode, set of failed calls) resp. "
                   "(operation, tree of the damaged page, result, truthful?, staged?, poisoned?, end, end result)")
    cov["trusted_base"] = ["Coq 8.16.1 kernel", "hook H3 (redb's own tree walkers, snapshot accessors)",
                           "harness/src/own_util.rs + bin/c05.rs (abstraction of snapshots to page-id sets; logical dump "
                           "through the public read API; failing storage backend harness/src/backend.rs; bin/c05c.rs: "
                           "corrupting storage backend, page-layout parser choosing the damaged bytes, the truthful-partial-"
                           "execution filter)",
                           "extraction (ExtrOcamlBasic) + ocaml/c06_driver.ml, ocaml/c05_driver.ml (parsing, set comparison)"]
    return ctx.finish("proof", cov, assumptions=[
        "b-tree page churn is an oracle in the model (see coq/Txn/Own.v header): a tree mutation is given by the page set "
        "after it, universally quantified in the proofs, read off H3 snapshots and checked (oracle_ok) on every run",
        "table catalog / contents / savepoint validity are not in the Coq model: their equality before/after is "
        "validated per run on the real crate (full dump, scratch restore probes)",
        "a half-applied operation is modelled as an arbitrary working view + fresh allocations + frees of uncommitted "
        "pages (Abandon.v `half`); that redb never returns a committed page before commit is validated by S2/own_checkb",
        "storage errors are I/O errors that latch the storage layer, or logical Err(Corrupted) failures caused by a read "
        "that returned damaged bytes (modelled: Poison.v ECorrupt, positions per call kind transcribed from the order of "
        "reads and mutations in the code and compared per run); decoder panics on damaged bytes are not modelled (C12), "
        "the harness only checks that no half-applied state gets committed after one",
        "a commit after a failed call is judged only if nothing the transaction holds derives from the damaged bytes "
        "(truthful partial execution, checked byte for byte against the fault-free run); otherwise it is counted, not judged",
        "after a latched failure the reopen is proved at the granularity of C11's session model (the durable image is the "
        "one before begin_write by construction of that model) and validated per run (mode B)",
        "each API call is one atomic model step (schedules: C03/C16)",
    ], s2_ok=s2_ok, s2_detail=detail, searched=searched)
