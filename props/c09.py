"""C09 -- A multimap table behaves as a map from keys to ordered sets (DESIGN.md section 5, C09; design.d/C09.md).

S1  Coq: Props/C09.v (model of multimap_table.rs refines the sorted-map-of-sorted-sets spec for every program,
    page size and inner-tree behaviour; representation invariant; representation independence; spec semantics)
S3  the extracted SPEC replays the op log of the real crate: every result of every op must be equal
S2  the extracted MODEL replays it too: inline/subtree tag + stored count per touched key must be equal
    (observed through the guarded hook MultimapTable::verif_collection_info)
S2' the extracted TWO-LEVEL model (outer B-tree of collections + one inner B-tree per spilled key, both C04's shape
    model; coq/Multimap/Subtree.v, theorem c09_two_level_refines_kv) replays it as well: its outputs, and per touched
    key the whole tuple of the hook -- tag, stored count, is the subtree's root a LEAF, byte length of the inline /
    root leaf -- must be equal; the replayed state passes C04's verified checker at every commit / abort
"""
import json
import os
import re
import time


def _read(ctx, name):
    with open(os.path.join(ctx.workdir, name), errors="replace") as f:
        return f.read().split("\n")


def _program_of(cases, lineno, maxlen=400):
    """the op lines of the program containing (1-based) line `lineno`, up to that line"""
    i = lineno - 1
    start = i
    while start > 0 and not cases[start].startswith("P "):
        start -= 1
    return [l if len(l) <= maxlen else l[:maxlen] + "...(%d chars)" % len(l) for l in cases[start:i + 1]]


def _clip(s, n=600):
    return s if len(s) <= n else s[:n] + "...(%d chars)" % len(s)


def _run_once(ctx, n, big, tag):
    ctx._c09_n = n
    """harness + driver; returns (ok, detail, stats, s3_diffs, s2_diffs, cases)"""
    t0 = time.time()
    rc, out = ctx.harness("c09", [n, big])
    ctx.notes.append("%s harness %.1fs" % (tag, time.time() - t0))
    crashed = None
    if rc is None:
        return False, "harness build failed: %s" % (out or "")[-1500:], None, [], [], []
    if rc != 0:
        # the implementation took the process down: logs are flushed per program, compare the finished programs
        wd = ctx.workdir
        if not os.path.exists(os.path.join(wd, "impl_out.txt")):
            return False, "harness failed rc=%s before writing logs: %s" % (rc, (out or "")[-1500:]), None, [], [], []
        intent = [l for l in _read(ctx, "intent.txt") if l]
        crashed = {"rc": rc, "program_running": intent[-1] if intent else None, "stderr_tail": (out or "")[-600:]}
        nl = len([l for l in _read(ctx, "impl_out.txt")]) - 1
        json.dump({"programs": len(intent) - 1, "lines": nl, "nontrivial_programs": 0, "crashed": True},
                  open(os.path.join(wd, "stats.json"), "w"))
    t0 = time.time()
    rc2, err = ctx.driver("c09", "cases.txt", "driver_stdout.txt", args=("spec_out.txt", "model_out.txt", "model_rep.txt", "tl_out.txt", "tl_rep.txt"))
    ctx.notes.append("%s driver %.1fs" % (tag, time.time() - t0))
    if rc2 != 0:
        return False, "model driver failed rc=%s: %s" % (rc2, err), None, [], [], []
    if crashed:
        ctx.violation("c09-crash", "the implementation aborted the process while running a multimap program (%s)" % crashed["program_running"],
                      dict(crashed, run=tag, seed=ctx.seed, note="replay: harness c09 with this seed and budget; the named program aborts"))
    stats = json.load(open(os.path.join(ctx.workdir, "stats.json")))
    _, s3 = ctx.diff_lines("impl_out.txt", "spec_out.txt", limit=8)
    _, s2a = ctx.diff_lines("model_out.txt", "spec_out.txt", limit=3)
    _, s2b = ctx.diff_lines("impl_rep.txt", "model_rep.txt", limit=8)
    _, s2c = ctx.diff_lines("tl_out.txt", "spec_out.txt", limit=3)
    _, s2d = ctx.diff_lines("impl_rep2.txt", "tl_rep.txt", limit=8)
    try:
        stats["two_level_replay"] = json.loads([l for l in _read(ctx, "driver_stdout.txt") if l.startswith("{")][-1])
    except Exception:
        stats["two_level_replay"] = None
    cases = _read(ctx, "cases.txt")
    return True, None, stats, s3, (s2a, s2b, s2c, s2d), cases


def _report_s3(ctx, s3, cases, tag):
    seen_programs = set()
    for (ln, a, b) in s3:
        prog = _program_of(cases, ln)
        if prog and prog[0] in seen_programs:
            continue  # later differences in the same program are consequences of its first one
        seen_programs.add(prog[0] if prog else None)
        opkind = cases[ln - 1].split(" ")[0] if ln - 1 < len(cases) else "?"
        ctx.violation("c09-result-" + opkind,
                      "multimap op result differs from the sorted-map-of-sorted-sets spec at op %r (program %s): impl=%s spec=%s"
                      % (_clip(cases[ln - 1], 200), prog[0] if prog else "?", _clip(a, 300), _clip(b, 300)),
                      {"program_header": prog[0] if prog else None, "ops_up_to_failure": prog[1:], "impl": _clip(a, 4000),
                       "spec": _clip(b, 4000), "run": tag, "budget_programs": ctx._c09_n,
                       "format": "P <id> <ktype> <vtype> <page_size>; i k v | r k v leafbit | ra k rev nf nb | g k rev nf nb | rg lo hi rev nf nb | len | emp | commit | abort | reopen | rdump"})


def run(ctx):
    t0 = time.time()
    s1 = ctx.proof_obligations()
    ctx.notes.append("S1 %.1fs" % (time.time() - t0))
    n = 500 if ctx.quick else 4000
    big = 6000
    if getattr(ctx, "replay", None):
        # a replay file records seed, tier and budget; the run is deterministic in them
        obj = json.load(open(ctx.replay))
        ctx.seed = int(obj.get("seed", ctx.seed))
        ctx.tier = obj.get("tier", ctx.tier)
        n = int(obj.get("budget_programs", 500 if ctx.quick else 4000))
        print("replaying %s: seed=%d tier=%s programs=%d" % (ctx.replay, ctx.seed, ctx.tier, n), flush=True)
    cov = {"evaluations": 0, "distinct_nontrivial": 0}
    ok, detail, stats, s3, s2, cases = _run_once(ctx, n, big, "main")
    s2_ok, s2_detail, searched = True, None, None
    if not ok:
        s2_ok, s2_detail = False, detail
    else:
        cov["evaluations"] = stats["lines"]
        cov["programs"] = stats["programs"]
        cov["distinct_nontrivial"] = stats["nontrivial_programs"]
        cov["traces_validated_against_impl"] = stats["programs"]
        cov["input_distribution"] = {k: stats[k] for k in stats if k not in ("programs", "lines", "nontrivial_programs")}
        impl = _read(ctx, "impl_out.txt")
        rep = _read(ctx, "impl_rep.txt")
        # a few actual cases: the first ops of the first small program
        try:
            start = next(i for i, l in enumerate(cases) if l.startswith("P 0 "))
            cov["samples"] = [{"op": _clip(cases[i], 160), "impl_result": _clip(impl[i], 160), "impl_rep": rep[i]}
                              for i in range(start, min(start + 8, len(cases)))]
        except StopIteration:
            cov["samples"] = [{"op": _clip(cases[0], 160)}]
        _report_s3(ctx, s3, cases, "main")
        s2a, s2b, s2c, s2d = s2
        if s2a or s2b or s2c or s2d:
            s2_ok = False
            d = []
            for (ln, a, b) in s2a:
                d.append({"line": ln, "op": _clip(cases[ln - 1], 200), "model_out": _clip(a, 300), "spec_out": _clip(b, 300),
                          "what": "extracted model and spec disagree (contradicts mm_program_refines: are the key order laws violated by the data?)"})
            for (ln, a, b) in s2b:
                prog = _program_of(cases, ln)
                d.append({"line": ln, "program": prog[0] if prog else None, "op": _clip(cases[ln - 1], 200),
                          "impl_representation": a, "model_representation": b,
                          "what": "inline/subtree state or stored count of the key differs from the model of multimap_table.rs",
                          "ops_up_to_difference": prog[1:][-40:]})
            for (ln, a, b) in s2c:
                d.append({"line": ln, "op": _clip(cases[ln - 1], 200), "two_level_out": _clip(a, 300), "spec_out": _clip(b, 300),
                          "what": "extracted two-level model and spec disagree, or its state failed C04's checker (INV!) "
                                  "(contradicts c09_two_level_refines_kv: are the order laws violated by the data?)"})
            for (ln, a, b) in s2d:
                prog = _program_of(cases, ln)
                d.append({"line": ln, "program": prog[0] if prog else None, "op": _clip(cases[ln - 1], 200),
                          "impl_collection_info": a, "two_level_model": b,
                          "what": "tag / stored count / root-is-leaf / root leaf bytes of the key differ from the two-level model "
                                  "(outer tree of collections + C04's shape model of the key's subtree)",
                          "ops_up_to_difference": prog[1:][-40:]})
            s2_detail = d
            if not ctx.violations:
                # directed search: more programs around the thresholds, other seeds
                searched = []
                base = ctx.seed
                for i in range(1, 4):
                    ctx.seed = base * 1000 + i
                    ok2, det2, st2, s3b, _s2x, cases2 = _run_once(ctx, n * 3, big, "search-%d" % i)
                    searched.append({"seed": ctx.seed, "programs": st2["programs"] if st2 else 0, "ok": ok2,
                                     "result_differences": len(s3b)})
                    if ok2:
                        _report_s3(ctx, s3b, cases2, "search seed %d" % ctx.seed)
                    if ctx.violations:
                        break
                ctx.seed = base
    cov["stage_times"] = list(ctx.notes)
    cov["rule"] = ("programs = generated op sequences (insert/remove/remove_all/get/range fwd+rev with partially consumed "
                   "double-ended iterators/len/is_empty, several transactions with commit/abort/reopen and a read-transaction "
                   "dump after each) over <&[u8],&[u8]>, <u64,u64>, <&str,&[u8]>, page sizes 512..4096, value sizes empty..3 pages; "
                   "every op line is also replayed through the extracted two-level model (outputs + tag/count/root-kind/root-leaf-bytes "
                   "per touched key compared with the hook; markers in input_distribution.two_level_replay are counted by that replay); "
                   "evaluations = op lines compared; non-trivial = distinct program in which at least one key moved "
                   "inline->subtree, subtree->inline or was created directly as a subtree (counted by the harness)")
    cov["trusted_base"] = ["Coq 8.16.1 kernel + vm_compute", "harness/src/bin/c09.rs (generator, canonical text of results)",
                           "hook MultimapTable::verif_collection_info (read-only, guarded)",
                           "extraction (ExtrOcamlBasic only) + ocaml/c09_driver.ml",
                           "C04's B-tree model (Btree/Mutator.v, Shape.v) for both levels of the two-level model; the representation "
                           "model (Model.v) still takes the 'root is a leaf' bit as an observed input",
                           "page identity / checksums / page freeing of subtrees are not modelled (C06, C10)"]
    return ctx.finish("proof", cov,
                      assumptions=["Key::compare of K and V is a lawful total order whose Eq is byte equality (ord_laws; C15 proves it for the built-in types used)",
                                   "the inner subtree B-tree and the outer tree are C04's proved B-tree model (logical trees in the theorem, shape trees in the replay); "
                                   "that model is tied to btree_mutator.rs by C04's shape correspondence and, for subtrees, by the root-kind / root-leaf-bytes comparison here",
                                   "commit/abort/reopen are modelled as copy / restore of the table state (durability is C01's subject)"],
                      s2_ok=s2_ok, s2_detail=s2_detail, searched=searched)
