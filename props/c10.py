"""C10 -- Every committed image is a well-formed, checksummed forest (DESIGN.md section 5, C10).

S1  Coq: codec round trips, wf_dbb/wf_imageb soundness, reach_disjoint (coq/Props/C10.v).
S2  XXH3-128 model vs redb::verif::xxh3_128 on every length class; native page cutting of the
    command-line reader vs the extracted chunks_of on a sample of images.
S2c the extracted writer model (Format/TreeWriter.v encode_tree) applied to the logical trees of committed
    tables reproduces the crate's page bytes up to the covered length and the root header, byte for byte.
S3  every image the real crate leaves on storage after a durable commit / compaction / clean close is
    read by the extracted Coq reader (fmt): it must be accepted by wf_dbb and its decoded user tables
    must equal what the harness' sorted-map spec says.
"""
import os
import re
import shutil
import subprocess
from concurrent.futures import ThreadPoolExecutor

import vlib


def parse_batch(text):
    """split the output of `fmt_driver batch` into {command line: [lines]}"""
    out = {}
    cur = None
    for line in text.split("\n"):
        if line.startswith("=== end"):
            cur = None
        elif line.startswith("=== "):
            cur = line[4:]
            out[cur] = []
        elif cur is not None:
            out[cur].append(line)
    return out


def run_batch(exe, cmds, workdir, jobs=None, env=None, timeout=3000):
    """run fmt commands through `fmt_driver batch` in parallel worker processes"""
    jobs = jobs or max(1, min(vlib.NCPU, 12))
    shards = [cmds[i::jobs] for i in range(jobs)]
    shards = [s for s in shards if s]
    e = dict(os.environ)
    if env:
        e.update(env)

    def work(shard):
        p = subprocess.run([exe, "batch"], input="\n".join(shard) + "\n", cwd=workdir, env=e,
                           stdout=subprocess.PIPE, stderr=subprocess.PIPE, text=True, timeout=timeout)
        return p.returncode, p.stdout, p.stderr

    res = {}
    errs = []
    with ThreadPoolExecutor(max_workers=len(shards) or 1) as ex:
        for rc, so, se in ex.map(work, shards):
            if rc != 0:
                errs.append("fmt_driver rc=%s: %s" % (rc, se[-500:]))
            res.update(parse_batch(so))
    return res, errs


def decoded_user_contents(lines):
    """the `contents` output of fmt reduced to the harness' expectation format (data forest only)"""
    out = []
    in_data = False
    for l in lines:
        if l.startswith("forest "):
            in_data = l.startswith("forest data")
        elif l.startswith("table "):
            in_data = l.startswith("table data ")
            if in_data:
                m = re.search(r" namehex=(\S+) kind=(\S+)", l)
                out.append("table %s %s" % (m.group(1), m.group(2)))
        elif in_data and l.startswith("kv "):
            out.append(l)
        elif in_data and l.startswith("kvs "):
            f = l.split(" ")
            # kvs <key> inline|subtree n=<n> [root=.. sum=.. len=..] <values...>
            vals = [x for x in f[4:] if "=" not in x]
            out.append(" ".join(["kvs", f[1]] + vals))
    return out


def markers(lines):
    """path markers crossed by one image (from the `dump` output)"""
    m = set()
    for l in lines:
        if l.startswith("page "):
            if " depth=1 " in l:
                m.add("two-level-tree")
            if re.search(r" depth=([2-9]) ", l):
                m.add("three-level-tree")
            mm = re.search(r" r(\d+)\.(\d+)/(\d+) ", l)
            if mm and int(mm.group(1)) > 0:
                m.add("multi-region")
            if mm and int(mm.group(3)) > 0:
                m.add("high-order-page")
            if "/sub:" in l:
                m.add("multimap-subtree")
                if " depth=1 " in l or " kind=branch " in l:
                    m.add("multi-level-subtree")
            if l.startswith("page data-master") and " kind=branch " in l:
                m.add("multi-level-catalog")
        elif l.startswith("kvs ") and " inline " in l:
            m.add("multimap-inline")
        elif l.startswith("table data") and "kind=multimap" in l:
            m.add("multimap-table")
        elif l.startswith("table data") and "kind=normal" in l:
            m.add("normal-table")
        elif l.startswith("savepoint "):
            m.add("persistent-savepoint")
        elif l.startswith("freed data") or l.startswith("freed system"):
            m.add("pending-free-list")
        elif l.startswith("allocated data"):
            m.add("allocated-list")
        elif l.startswith("alloc_state "):
            m.add("allocator-state-table")
        elif l.startswith("header ") and "two_phase_commit=1" in l:
            m.add("2pc-flag")
        elif l.startswith("unknown_order_tables=") and not l.startswith("unknown_order_tables=0"):
            m.add("table-with-unmodelled-key-order")
    return m


def check_images(ctx, exe, imgdir, cov, key_prefix="c10"):
    """S3 on every image listed in <imgdir>/index.txt. Returns (n_images, n_bad)."""
    index = [l.split(" ") for l in open(os.path.join(imgdir, "index.txt")).read().split("\n") if l]
    cmds = ["dump %s" % os.path.join(imgdir, e[0]) for e in index]
    res, errs = run_batch(exe, cmds, ctx.workdir)
    for e in errs:
        ctx.notes.append(e)
    pages = 0
    bad = 0
    marks = {}
    kinds = {}
    events = {}
    distinct = set()
    samples = []
    for e, cmd in zip(index, cmds):
        img, exp = e[0], e[1]
        meta = dict(x.split("=", 1) for x in e[2:])
        lines = res.get(cmd)
        events[meta.get("event", "?")] = events.get(meta.get("event", "?"), 0) + 1
        replay = {"image": os.path.join(imgdir, img), "index_line": " ".join(e), "harness": "c10 hist (seed %d)" % ctx.seed,
                  "how": "VERIF_SEED=%d harness c10 hist <n> <dir>; fmt_driver dump <image>" % ctx.seed}

        def keep(key, replay=replay, img=img, exp=exp):
            """copy the failing image (and its expectation) into replays/ so that --replay works later"""
            if any(v[0] == key for v in ctx.violations) or len(ctx.violations) >= 4:
                return
            tag = re.sub(r"[^A-Za-z0-9_.-]", "_", key)[:60]
            dst = os.path.join(vlib.ROOT, "replays", "%s-%s-%d.img" % (ctx.pid, tag, ctx.seed))
            try:
                shutil.copy(os.path.join(imgdir, img), dst)
                shutil.copy(os.path.join(imgdir, exp), dst + ".exp")
                replay["saved_image"] = os.path.relpath(dst, vlib.ROOT)
            except OSError:
                pass
        if lines is None:
            bad += 1
            keep(key_prefix + "-reader-crash")
            ctx.violation(key_prefix + "-reader-crash", "the extracted reader produced no output for %s" % img, replay)
            continue
        verdict = [l for l in lines if l.startswith("wf=")]
        reasons = [l for l in lines if l.startswith("reason") or " ERROR " in l]
        if verdict != ["wf=ok"]:
            bad += 1
            first = reasons[0] if reasons else "?"
            k = re.sub(r"loc=.*", "", first).strip().replace(" ", "_")[:50]
            replay["reasons"] = reasons[:10]
            keep(key_prefix + "-wf-" + k)
            ctx.violation(key_prefix + "-wf-" + k,
                          "image %s (%s) written by the crate is not a well-formed checksummed forest: %s" % (img, meta.get("event"), first),
                          replay)
            continue
        got = decoded_user_contents(lines)
        want = [l for l in open(os.path.join(imgdir, exp)).read().split("\n") if l]
        if got != want:
            bad += 1
            d = next((i for i in range(max(len(got), len(want))) if i >= len(got) or i >= len(want) or got[i] != want[i]), 0)
            replay["first_difference"] = {"line": d, "decoded": got[d] if d < len(got) else None, "spec": want[d] if d < len(want) else None}
            keep(key_prefix + "-contents")
            ctx.violation(key_prefix + "-contents",
                          "image %s decodes (format-only reader) to contents different from the sorted-map spec at line %d" % (img, d), replay)
            continue
        npages = sum(1 for l in lines if l.startswith("page "))
        pages += npages
        ms = markers(lines)
        for m in ms:
            marks[m] = marks.get(m, 0) + 1
        for l in lines:
            if l.startswith("table data"):
                k = re.search(r"kind=(\S+) ktype=(\S+) vtype=(\S+)", l)
                kk = "%s %s->%s" % k.groups()
                kinds[kk] = kinds.get(kk, 0) + 1
        nontrivial = ms & {"two-level-tree", "three-level-tree", "multimap-subtree", "multi-region", "high-order-page",
                           "persistent-savepoint", "multi-level-catalog"}
        if nontrivial:
            sig = tuple(l for l in lines if l.startswith("slot ") or l.startswith("file_len"))
            distinct.add(sig)
        if len(samples) < 3 and nontrivial:
            samples.append({"image": img, "event": meta.get("event"), "page_size": meta.get("page_size"),
                            "pages": npages, "markers": sorted(ms)})
    cov["evaluations"] = cov.get("evaluations", 0) + len(index)
    cov["distinct_nontrivial"] = cov.get("distinct_nontrivial", 0) + len(distinct)
    cov["pages_decoded"] = cov.get("pages_decoded", 0) + pages
    cov.setdefault("path_markers", {}).update(marks)
    cov.setdefault("table_kinds", {}).update(kinds)
    cov.setdefault("image_events", {}).update(events)
    cov.setdefault("samples", []).extend(samples)
    return len(index), bad


def writer_correspondence(ctx, exe, cov):
    """S2c: the extracted WRITER model (encode_tree: page layouts + bottom-up checksums + root header) applied to the
    logical trees of committed tables (Table::verif_shape + contents, page numbers as the crate assigned them)
    must reproduce byte for byte the covered bytes of those pages in the image and the root BtreeHeader in the
    catalog.  Returns (ok, detail)."""
    n = 36 if ctx.quick else 400
    tdir = os.path.join(ctx.workdir, "trees")
    rc, out = ctx.harness("c10", ["trees", n, tdir], timeout=1500)
    if rc != 0:
        return False, "harness c10 trees failed rc=%s: %s" % (rc, (out or "")[-1500:])
    summary = out.strip().split("\n")[-1]
    cov["writer_tree_distribution"] = summary
    m = re.search(r"harness_errors=(\d+)", summary)
    if m and int(m.group(1)) > 0:
        return False, {"what": "tree harness hit an unexpected crate error or panic", "summary": summary}
    index = [l.split(" ") for l in open(os.path.join(tdir, "trees.txt")).read().split("\n") if l]
    cmds = ["treecmp %s %s" % (os.path.join(tdir, e[0]), os.path.join(tdir, e[1])) for e in index]
    res, errs = run_batch(exe, cmds, ctx.workdir, jobs=6)
    tot = {"trees": 0, "pages_equal": 0, "pages_differ": 0, "bytes": 0, "root_differs": 0, "outside_limits": 0,
           "multi_level": 0, "empty": 0}
    first = None
    for e, cmd in zip(index, cmds):
        lines = res.get(cmd) or []
        head = [l for l in lines if l.startswith("treecmp name=")]
        if not head:
            first = first or {"tree": e[0], "image": e[1], "output": lines[:5] + errs[:2]}
            tot["pages_differ"] += 1
            continue
        f = dict(x.split("=", 1) for x in head[0].split(" ")[1:])
        tot["trees"] += 1
        tot["pages_equal"] += int(f["pages_equal"])
        tot["pages_differ"] += int(f["pages_differ"])
        tot["bytes"] += int(f["bytes"])
        tot["empty"] += int(f["empty"])
        tot["multi_level"] += 1 if int(f.get("height", 0)) >= 1 else 0
        if f["root_ok"] != "1" or f["widths_ok"] != "1":
            tot["root_differs"] += 1
        if f["limits"] != "1" or f["placed"] != "1":
            tot["outside_limits"] += 1
        if (f["pages_differ"] != "0" or f["root_ok"] != "1" or f["widths_ok"] != "1") and first is None:
            first = {"tree": os.path.join(tdir, e[0]), "image": os.path.join(tdir, e[1]), "summary": head[0],
                     "diffs": [l[:400] for l in lines if l.startswith("treediff")][:6],
                     "how": "VERIF_SEED=%d harness c10 trees %d <dir>; fmt_driver treecmp <tree> <image>" % (ctx.seed, n)}
    cov["writer_correspondence"] = tot
    if first is not None:
        return False, {"what": "extracted writer model (encode_tree) and the crate's pages differ", "first": first, "totals": tot}
    return True, None


def replay(ctx, exe):
    """./check Cxx --replay replays/<file>.json : run the reader again on the saved failing image"""
    import json
    r = json.load(open(ctx.replay))
    img = r.get("saved_image") or r.get("image")
    if img and not os.path.isabs(img):
        img = os.path.join(vlib.ROOT, img)
    if not img or not os.path.exists(img):
        vlib.log("replay: image %s is not available any more; regenerate it with: %s" % (img, r.get("how")))
        return 2
    rc, out = vlib.sh([exe, "dump", img])
    lines = out.split("\n")
    vlib.log("\n".join(l[:300] for l in lines if not l.startswith("kv")))
    ok = "wf=ok" in lines
    if ok and os.path.exists(img + ".exp"):
        ok = decoded_user_contents(lines) == [l for l in open(img + ".exp").read().split("\n") if l]
        vlib.log("contents equal to the spec: %s" % ok)
    vlib.log("REPLAY %s" % ("no longer fails" if ok else "still fails: %s" % r.get("what")))
    return 0 if ok else 1


def run(ctx):
    if getattr(ctx, "replay", None):
        exe, out = vlib.ocaml_driver("fmt")
        return replay(ctx, exe)
    s1 = ctx.proof_obligations()
    cov = {"evaluations": 0, "distinct_nontrivial": 0}
    s2_ok, detail = True, None
    exe, out = vlib.ocaml_driver("fmt")
    if exe is None:
        return ctx.finish("proof", cov, s2_ok=False, s2_detail="fmt driver build failed: " + out[-1500:])

    # ---- S2a: XXH3 model vs implementation
    rc, out = ctx.harness("c10", ["xxh", 1500 if ctx.quick else 20000])
    if rc != 0:
        s2_ok, detail = False, "harness c10 xxh failed rc=%s: %s" % (rc, (out or "")[-1500:])
    else:
        m = re.search(r"xxh_cases=(\d+) classes=(\S+)", out)
        cov["xxh3_cases"] = int(m.group(1))
        cov["xxh3_length_classes"] = m.group(2)
        rc2, err = ctx.driver("fmt", "cases.txt", "model.txt", args=["xxh"])
        if rc2 != 0:
            s2_ok, detail = False, "fmt xxh failed rc=%s: %s" % (rc2, err)
        else:
            nl, diffs = ctx.diff_lines("impl.txt", "model.txt")
            if diffs:
                cases = open(os.path.join(ctx.workdir, "cases.txt")).read().split("\n")
                s2_ok = False
                detail = {"what": "XXH3-128 model differs from redb::verif::xxh3_128",
                          "first": [{"input_hex": cases[ln - 1][:200], "len": len(cases[ln - 1]) // 2, "impl": a, "model": b} for ln, a, b in diffs]}

    # ---- S3: images
    nhist = 48 if ctx.quick else 300
    imgdir = os.path.join(ctx.workdir, "imgs")
    rc, out = ctx.harness("c10", ["hist", nhist, imgdir], timeout=3000)
    if rc != 0:
        s2_ok, detail = False, "harness c10 hist failed rc=%s: %s" % (rc, (out or "")[-1500:])
    else:
        summary = out.strip().split("\n")[-1]
        cov["history_distribution"] = summary
        m = re.search(r"harness_errors=(\d+)", summary)
        if m and int(m.group(1)) > 0:
            # the crate returned an error / panicked inside a generated history: not an image-level fact;
            # reported as a broken correspondence (the spec and the crate disagree on what is legal)
            s2_ok = False
            detail = {"what": "generated history hit an unexpected crate error or panic", "summary": summary}
        n, bad = check_images(ctx, exe, imgdir, cov)
        cov["images_checked"] = n
        cov["images_rejected"] = bad
        # ---- S2b: native page cutting vs extracted chunks_of (slow path) on a few small images
        index = [l.split(" ")[0] for l in open(os.path.join(imgdir, "index.txt")).read().split("\n") if l]
        small = sorted(index, key=lambda f: os.path.getsize(os.path.join(imgdir, f)))[:3]
        cmds = ["dump %s" % os.path.join(imgdir, f) for f in small]
        fast, _ = run_batch(exe, cmds, ctx.workdir, jobs=1)
        pure, _ = run_batch(exe, cmds, ctx.workdir, jobs=3, env={"FMT_PURE": "1"})
        cov["pure_vs_native_images"] = len(small)
        if fast != pure:
            s2_ok, detail = False, "fmt native page cutting and extracted chunks_of give different dumps on " + ",".join(small)
    # ---- S2c: writer model vs LeafBuilder / BranchBuilder / finalize_dirty_checksums, byte for byte
    if s2_ok:
        okw, dw = writer_correspondence(ctx, exe, cov)
        if not okw:
            s2_ok, detail = False, dw
    cov["rule"] = ("one evaluation = one storage image taken after the final sync of a durable commit, after compaction or after clean "
                   "close, accepted by the extracted wf_dbb AND decoding to the spec's contents; non-trivial = distinct header slots "
                   "and crossing at least one of: multi-level tree, multimap subtree, multi-region, high-order page, persistent savepoint, multi-level catalog")
    cov["traces_validated_against_impl"] = cov.get("images_checked", 0)
    cov["trusted_base"] = ["Coq 8.16.1 kernel + vm_compute", "tools/gen_consts.py", "harness/src/bin/c10.rs + c10_util.rs (generator, sorted-map spec, recording backend)",
                           "extraction (ExtrOcamlBasic/ExtrOcamlString) + ocaml/fmt_driver.ml (file reading, page cutting, printing)",
                           "Format/Xxh3.v equals the crate's XXH3 only by the differential test",
                           "docs/design.md + codecs as the meaning of 'the documented file format'"]
    return ctx.finish("proof", cov,
                      assumptions=["key order of a table is checked only when its stored type name has a comparator in Format/KeyCmp.v (others are counted in path_markers)",
                                   "model_images_wf is proved for the WRITER MODEL (single normal table, programs of insert/remove/pop from the empty table, side conditions db1_okb on the input); that redb's writer is that model is validated per run (byte-for-byte page comparison on sampled committed trees + every image accepted), multimap/system tables/savepoints only per image"],
                      s2_ok=s2_ok, s2_detail=detail)
