"""C13 -- Compaction changes space, never content (DESIGN.md section 5 C13, design.d/C13.md).

S1  coq/Props/C13.v.  Compact/Model.v: relocation by any renaming map preserves contents and shape; with a map
    closed under ancestors every named page moves and no old page is overwritten; the sequential guards refuse and
    leave everything unchanged.  Compact/Guard.v: the guards as a step machine against a write transaction that was
    already open (savepoints created / dropped at every step, commit / abort while compact() waits for the slot):
    for EVERY interleaving compact() relocates only when nothing exists, holding the write slot.  Compact/Pass.v:
    the pass loop on page positions: a progressing pass strictly decreases a well-founded measure, the loop
    terminates, ends packed with the highest position not above the initial one, a verified checker for observed
    passes.
S2  (a) guard situations, sequential and forced through the H4 pause points (the object comes into existence before
    the call / between the up-front checks / while compact() is parked before begin_write(); the writer ends before
    or after compact() went to sleep on the slot; drops at every stop): the extracted step machine predicts
    compact()'s answer; (b) every OBSERVED pass of every compact() call (page paths before / after, taken through
    Database::verif_observer between compact()'s transactions): the extracted checker pass_okP accepts the observed
    relocation of the data tables and the measure compares as the soundness theorem says; every pass without
    progress is packed (extracted packedb for an order-0 highest page).
S3  evaluated by the harness on the real crate: contents equal before / after every compact() call; data table
    shape unchanged; no page leaked or owned twice, nothing pending afterwards (H3); file never larger than before
    the compaction and never larger after a call that moved pages; every relocation target was free before its
    pass; a bound on passes and on write transactions per call (non-termination is a finding, never a hang);
    compact() never gets past its guards while an object it has to refuse exists; fixpoint within a bound of calls;
    every crash image built from the compaction's own op stream reopens to the unchanged contents with a consistent
    allocator; refusals change nothing.
NOT proved, observed only: the length of the FILE (regions, buddy orders, commits' own pages, try_shrink).
"""
import os
import re


def _lines(ctx, name):
    l = open(os.path.join(ctx.workdir, name)).read().split("\n")
    while l and l[-1] == "":
        l.pop()
    return l


KEYS = [("moved nothing left the file larger than it found it (tiny regions)", "c13-file-grew-noprogress-tiny-regions"),
        ("went past its guards", "c13-not-refused"), ("the call does not finish", "c13-no-fixpoint"),
        ("a page of the old version is overwritten", "c13-overwrite"),
        ("contents changed", "c13-contents"), ("recovered contents differ", "c13-crash-contents"),
        ("made the file larger", "c13-file-grew"), ("no fixpoint", "c13-no-fixpoint"),
        ("allocated != required", "c13-leak"), ("owned twice", "c13-double-owner"),
        ("still pending free", "c13-pending-after-compaction"), ("changed the shape", "c13-shape"),
        ("number of data-tree pages", "c13-shape"), ("refused compact() changed", "c13-refusal-changed-state"),
        ("answered `", "c13-unexpected-answer"), ("abort:", "c13-abort")]


def analyse(ctx, n, only=None):
    res = {"ok": False, "detail": None, "s2": [], "evals": 0, "nontrivial": 0, "stats": "", "samples": []}
    rc, out = ctx.harness("c13", [n] + ([only] if only is not None else []))
    if rc != 0:
        res["detail"] = "harness failed rc=%s: %s" % (rc, (out or "")[-1500:])
        return res
    res["stats"] = out.strip()
    m = re.search(r"histories=(\d+) compactions_that_moved_pages=(\d+) distinct_nontrivial=(\d+)", out)
    res["nontrivial"] = int(m.group(3))
    mm = re.search(r"crash_images=(\d+)", out)
    res["crash_images"] = int(mm.group(1)) if mm else 0
    rc2, err = ctx.driver("c13", "cases.txt", "model.txt")
    if rc2 != 0:
        res["detail"] = "model driver failed rc=%s: %s" % (rc2, err)
        return res
    cases, impl, model = _lines(ctx, "cases.txt"), _lines(ctx, "impl.txt"), _lines(ctx, "model.txt")
    res["evals"] = len(cases)
    res["samples"] = [{"situation": c, "implementation": a, "model": b} for c, a, b in list(zip(cases, impl, model))[:4]]
    cmd = "VERIF_SEED=%d VERIF_TIER=%s harness bin c13 %d <history>" % (ctx.seed, ctx.tier, n)
    for l in _lines(ctx, "viol.txt"):
        h, what = l.split("\t", 1)
        w = what.split(" || ")[0]
        key = "c13-other"
        for pat, k in KEYS:
            if pat in w:
                key = k
                break
        parts = what.split(" || trace: ")
        ctx.violation(key, "history %s: %s" % (h, parts[0]),
                      {"history": int(h), "reproduce": cmd.replace("<history>", h), "finding": parts[0],
                       "history_steps": parts[1].split(" ; ") if len(parts) > 1 else []})
    for i, c in enumerate(cases):
        a = impl[i] if i < len(impl) else "<missing>"
        b = model[i] if i < len(model) else "<missing>"
        if a == b:
            continue
        h = c.split(" ")[0]
        if b.endswith("none") is False and a.endswith("none"):
            # the property itself: compact() must refuse while readers / savepoints exist
            ctx.violation("c13-not-refused", "history %s: compact() ran although [%s] requires a refusal (%s)" % (h, c, b),
                          {"history": int(h), "reproduce": cmd.replace("<history>", h), "situation": c, "implementation": a, "model": b})
        elif b.endswith("none") and a.split(" ", 1)[1].startswith("err") and " guard " in c:
            ctx.violation("c13-refused-idle", "history %s: compact() refused on a database without readers or savepoints: %s" % (h, a),
                          {"history": int(h), "reproduce": cmd.replace("<history>", h), "situation": c, "implementation": a, "model": b})
        else:
            res["s2"].append({"history": int(h), "situation": c, "implementation": a, "model": b})
    res["ok"] = True
    return res


def _replay_target(ctx):
    if not getattr(ctx, "replay", None):
        return None
    import json
    o = json.load(open(ctx.replay))
    m = re.search(r"bin c13 (\d+) (\d+)", o.get("reproduce", ""))
    ctx.seed = int(o.get("seed", ctx.seed))
    return (int(m.group(1)), int(m.group(2))) if m else None


def run(ctx):
    s1 = ctx.proof_obligations()
    n = 90 if ctx.quick else 2000
    rp = _replay_target(ctx)
    r = analyse(ctx, rp[0], only=rp[1]) if rp else analyse(ctx, n)
    s2_ok, detail, searched = True, None, None
    if not r["ok"]:
        s2_ok, detail = False, r["detail"]
    elif r["s2"]:
        s2_ok, detail = False, {"differences": r["s2"][:5], "count": len(r["s2"])}
    if (not s1["ok"] or not s2_ok) and not ctx.violations and r["ok"]:
        base, tried = ctx.seed, 0
        for k in range(1, 4 if ctx.quick else 8):
            ctx.seed = base * 1000 + k
            rr = analyse(ctx, n * 2)
            tried += rr["evals"]
            if ctx.violations:
                break
        ctx.seed = base
        searched = "directed search: %d more compact() calls over derived seeds" % tried
    cov = {
        "evaluations": r["evals"] + r.get("crash_images", 0), "distinct_nontrivial": r["nontrivial"],
        "rule": "random histories: grow (bulk inserts, big values, a hot multimap key), fragment (mostly deletions, range removals), durability None/Immediate mixed "
                "so that pending frees and pending non-durable commits exist when compact() starts; guard situations, sequential and concurrent (forced schedules "
                "through the H4 pause points); compact() stepped through its own transactions, every pass observed, until it reports no progress; "
                "crash images cut from the op stream of the first compact() call; clean reopen and further transactions; evaluations = model/implementation "
                "comparisons (guard answers, observed passes, packed fixpoints) + crash images; non-trivial = distinct history in which compaction moved pages",
        "samples": r["samples"], "traces_validated_against_impl": r["evals"], "input_distribution": r["stats"],
        "trusted_base": ["Coq 8.16.1 kernel + vm_compute", "harness/src/bin/c13.rs + harness/src/rvdb.rs", "extraction (ExtrOcamlBasic only) + ocaml/c13_driver.ml",
                         "H3 hooks (allocator snapshot, page walk) for leak / shape oracles; H4 pause points + rv_harness::conc::Controller for the forced schedules; "
                         "Database::verif_observer (page paths as compact_pages collects them) for the per-pass observations",
                         "the pass model has order-0 pages and unbounded space: regions, buddy orders, the commits' own pages and try_shrink are outside it",
                         "the model's tree is abstract (page ids, payloads, children): byte-level pointer and checksum rewriting of the real relocate_helper is "
                         "validated by reading every table back, not proved"],
    }
    return ctx.finish("proof", cov,
                      assumptions=["termination and the highest position at the end are proved for the position model (order-0 pages, unbounded space); the length of the "
                                   "FILE ('never larger') is observed per run, and so is termination of the real call (bounded number of passes / transactions)",
                                   "guard step model: while compact(&mut self) runs nothing can BEGIN (Rust borrow rules); the only concurrent actor is one write "
                                   "transaction begun before the call, plus drops of existing objects",
                                   "crash safety of the commits compaction issues is C01's theorem; here crash images are sampled",
                                   "with regions of a few dozen pages a compact() call that moves nothing can leave the file larger than the previous call left it "
                                   "(never larger than before the compaction): counted as noprogress_call_regrew_file, see design.d/C13.md"],
                      s2_ok=s2_ok, s2_detail=detail, searched=searched)
