"""Cache layer (PagedCachedFile / CheckedBackend / write buffer) -- correspondence + direct oracle, shared by C02 and C08.

    run_cache(ctx, mode, nprog) -> (s2_ok, s2_detail, coverage, violations)

mode "coherence" (C02): protocol-abiding random + adversarial call programs, fault-free backend, every 5th program
     with the blocked-flush scenario (a reader runs while flush() is stuck in its first backend write);
mode "faults"   (C08): the same with injected backend failures on required and best-effort paths.

S2  harness/src/bin/cachecorr.rs runs the programs on the real PagedCachedFile (hook redb::verif_cache) and
    ocaml/cache_driver.ml runs them on the extracted model coq/Storage/Cache.v, fed with the eviction / writeback
    choices and backend answers the real crate was observed to make; every result, every backend event (kind,
    offset, length, content hash, outcome, best-effort or required) and the picture of both caches, counters and
    flags after every call are compared exactly; the extracted usage protocol (proto_step) must accept every program.
S3  independent of the model: a plain byte array "last write wins" against every real read, the file after flush(),
    the read-cache budget, and what a failed best-effort / required backend call does to the result and the latch.
The violations are returned as dicts (key without property prefix, what, replay object); the caller reports them.
"""
import json
import os
import re
import subprocess
from concurrent.futures import ThreadPoolExecutor

import vlib

BIN = "cachecorr"
PAR = 4


def _lines(path):
    if not os.path.exists(path):
        return []
    l = open(path).read().split("\n")
    while l and l[-1] == "":
        l.pop()
    return l


def _run_driver(exe, chunk):
    p = subprocess.run(["bash", "-c", 'ulimit -s unlimited 2>/dev/null; exec "$0"', exe], input="\n".join(chunk) + "\n",
                       stdout=subprocess.PIPE, stderr=subprocess.PIPE, text=True, timeout=1500)
    out = p.stdout.split("\n")
    while out and out[-1] == "":
        out.pop()
    return p.returncode, out, p.stderr[-500:]


def model_lines(cases):
    """run the extracted model over the case lines, PAR driver processes over disjoint groups of programs"""
    exe, out = vlib.ocaml_driver("cache")
    if exe is None:
        return None, "model driver build failed: " + out[-1500:]
    progs, cur = [], []
    for l in cases:
        if l.startswith("P ") and cur:
            progs.append(cur)
            cur = []
        cur.append(l)
    if cur:
        progs.append(cur)
    # balance by size: big files dominate the cost
    chunks = [[] for _ in range(PAR)]
    cost = [0] * PAR
    order = []
    for i, p in enumerate(progs):
        k = cost.index(min(cost))
        chunks[k].append(i)
        h = p[0].split()
        cost[k] += len(p) * (1 + int(h[4], 16) // 2048)
        order.append(k)
    inputs = [[l for i in ch for l in progs[i]] for ch in chunks]
    with ThreadPoolExecutor(PAR) as ex:
        res = list(ex.map(lambda c: _run_driver(exe, c) if c else (0, [], ""), inputs))
    for rc, _, err in res:
        if rc != 0:
            return None, "model driver failed rc=%s: %s" % (rc, err)
    # put the outputs back in program order
    pos = [0] * PAR
    out = []
    for i, p in enumerate(progs):
        k = order[i]
        out.extend(res[k][1][pos[k]:pos[k] + len(p)])
        pos[k] += len(p)
    return out, None


def run_cache(ctx, mode, nprog, only=None, compare=True):
    cov = {"cache_mode": mode, "cache_programs": 0, "cache_calls": 0, "cache_distinct_nontrivial": 0}
    args = [mode, nprog] + ([only] if only is not None else [])
    rc, out = ctx.harness(BIN, args, timeout=1500)
    if rc != 0:
        return False, "cache harness failed rc=%s: %s" % (rc, (out or "")[-1500:]), cov, []
    w = ctx.workdir
    cases, impl = _lines(os.path.join(w, "cache_cases.txt")), _lines(os.path.join(w, "cache_impl.txt"))
    stats = "\n".join(_lines(os.path.join(w, "cache_stats.txt")))
    m = re.search(r"programs=(\d+) calls=(\d+) distinct_nontrivial=(\d+) violations=(\d+)", stats)
    if m:
        cov["cache_programs"], cov["cache_calls"], cov["cache_distinct_nontrivial"] = int(m.group(1)), int(m.group(2)), int(m.group(3))
    for name in ("kinds", "markers", "budgets"):
        mm = re.search(r"^%s=(\{.*\})$" % name, stats, flags=re.M)
        if mm:
            cov["cache_" + name] = {a: int(b) for a, b in re.findall(r'"([^"]+)": (\d+)', mm.group(1))}
    cov["cache_samples"] = [l[7:600] for l in stats.split("\n") if l.startswith("sample=")][:3]
    viol = []
    for l in _lines(os.path.join(w, "cache_violations.txt")):
        try:
            d = json.loads(l)
        except ValueError:
            return False, "unparsable cache violation record: " + l[:300], cov, viol
        key, what = d.pop("key"), d.pop("what")
        d["cache_args"] = [mode, nprog, d.get("program")]
        d["how_to_replay"] = ("VERIF_SEED=%d cachecorr %s %d %s   (harness bin cachecorr; the 3rd argument runs only that program; "
                              "cache_violations.txt then holds the record again)" % (ctx.seed, mode, nprog, d.get("program")))
        viol.append((key, what, d))
    if not compare:
        return True, None, cov, viol
    if len(cases) != len(impl):
        return False, "cache harness wrote %d case lines but %d impl lines" % (len(cases), len(impl)), cov, viol
    model, err = model_lines(cases)
    if model is None:
        return False, err, cov, viol
    if len(model) != len(impl):
        return False, "cache model driver printed %d lines for %d cases" % (len(model), len(cases)), cov, viol
    diffs = []
    header = ""
    start = 0
    for i, (c, a, b) in enumerate(zip(cases, impl, model)):
        if c.startswith("P "):
            header, start = c, i
        if a != b and len(diffs) < 4:
            calls = "; ".join(x.split(" |")[0] for x in cases[start + 1:i + 1])[-1500:]
            kind = "the generated program leaves the usage protocol of the theorems" if b.endswith("!proto") else \
                   "PagedCachedFile and the model Storage/Cache.v differ"
            diffs.append("%s: program [%s] call #%d `%s`: implementation %s ; model %s ; calls so far: %s"
                         % (kind, header, i - start, c[:200], a[:500], b[:500], calls))
    cov["cache_lines_compared"] = len(impl)
    if diffs:
        return False, diffs, cov, viol
    return True, None, cov, viol


def check_cache(ctx, prefix, mode, nprog):
    """S2 + S3 for one mode; reports S3 violations through ctx.violation(prefix + key); a model/implementation
    difference without a failing input triggers a directed search (4x the programs, another seed, S3 only)."""
    ok, detail, cov, viol = run_cache(ctx, mode, nprog)
    for key, what, d in viol:
        ctx.violation(prefix + key, what, d)
    searched = None
    if not ok and not viol:
        seed0 = ctx.seed
        ctx.seed = seed0 * 7919 + 17
        try:
            ok2, _, cov2, viol2 = run_cache(ctx, mode, nprog * 4, compare=False)
        finally:
            ctx.seed = seed0
        # replays of the directed search use its own seed
        for key, what, d in viol2:
            d["seed"] = seed0 * 7919 + 17
            ctx.violation(prefix + key, what, d)
        searched = "cache layer: re-ran %d programs with seed %d against the plain-array oracle: %d violations" % (
            cov2.get("cache_programs", 0), seed0 * 7919 + 17, len(viol2))
    return ok, detail, cov, searched


def replay_cache(ctx, prefix, rp):
    mode, nprog, prog = rp["cache_args"]
    ok, detail, cov, viol = run_cache(ctx, mode, nprog, only=prog, compare=False)
    for key, what, d in viol:
        ctx.violation(prefix + key, what, d)
    return cov
