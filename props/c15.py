"""C15 -- Built-in key types order correctly and separators are valid (DESIGN.md section 5, C15).

S1  coq/Props/C15.v (+ Types/KeyTypes*.v, Types/Utf8*.v): roundtrip, compare = value order, total order,
    separator / branch_separator validity, routing, fixed_width, min_encoded_key -- for every kty by induction.
S2  harness/src/bin/c15.rs runs the real crate on generated pairs of ~70 monomorphised key types;
    ocaml/c15_driver.ml (extracted model) computes the same outputs from the VALUES; bytes compared exactly.
S3  the property itself on the implementation's outputs (driver mode `oracle`): value order (vcompare,
    proved a total order) and has_type from the model as specification, everything else from the
    implementation: from_bytes(as_bytes v) = v, compare = value order both ways, the separator
    decodes (impl from_bytes) to a value sv of the type with as_bytes(sv) = separator, lo <= sv < hi
    by value AND by Key::compare, no longer than lo (and exactly fixed_width for branch_separator).
Decision: S3 failure -> concrete VIOLATION (replay = that pair).  Only model<->impl difference ->
directed search around the differing type (20x budget) -> still none -> no-failing-input-found.
"""
import json
import os
import re
import shutil
import time

TRUSTED = ["Coq 8.16.1 kernel + vm_compute (Examples)", "tools/gen_consts.py (no C15 constant is used)",
           "harness/src/bin/c15.rs (generators, derived Ord on the value enum to pick the separator's argument order, "
           "text rendering of values)",
           "extraction (ExtrOcamlBasic only) + ocaml/c15_driver.ml (parsers, oracle glue)",
           "redb::verif::branch_separator hook (one-line wrapper)"]


def _lines(ctx, name):
    with open(os.path.join(ctx.workdir, name)) as f:
        l = f.read().split("\n")
    while l and l[-1] == "":
        l.pop()
    return l


_DRIVER = {}


def _driver(ctx, infile, outfile, mode):
    """ctx.driver, but (a) the extraction + OCaml build (which takes the shared coq lock) happens once per
    check and (b) the input is cut at type boundaries (a `T` line and its cases) and run by several driver
    processes in parallel; outputs are concatenated in input order."""
    import subprocess
    import vlib
    if "exe" not in _DRIVER:
        exe, out = vlib.ocaml_driver("c15")
        if exe is None:
            return None, out[-3000:]
        _DRIVER["exe"] = exe
    lines = _lines(ctx, infile)
    segs, cur = [], []
    for l in lines:
        if l.startswith("T ") and len(cur) >= 2000:
            segs.append(cur)
            cur = []
        cur.append(l)
    if cur:
        segs.append(cur)
    # a segment may start in the middle of nothing: every segment starts with a T line by construction,
    # except possibly when a single type has no T line at all (never produced by the harness)
    procs, errs = [], []
    maxpar = max(1, min(12, (os.cpu_count() or 4) - 2))
    pending = list(enumerate(segs))
    running = []

    def start(i, seg):
        fi = os.path.join(ctx.workdir, "%s.seg%d.in" % (mode, i))
        fo = os.path.join(ctx.workdir, "%s.seg%d.out" % (mode, i))
        with open(fi, "w") as f:
            f.write("\n".join(seg) + "\n")
        p = subprocess.Popen(["bash", "-c", 'ulimit -s unlimited 2>/dev/null; exec "$0" "$@" < "%s" > "%s"' % (fi, fo),
                              _DRIVER["exe"], mode], stderr=subprocess.PIPE, cwd=ctx.workdir)
        return (i, p, fi, fo)
    deadline = time.time() + 3000
    results = {}
    while pending or running:
        while pending and len(running) < maxpar:
            i, seg = pending.pop(0)
            running.append(start(i, seg))
        still = []
        for (i, p, fi, fo) in running:
            rc = p.poll()
            if rc is None:
                still.append((i, p, fi, fo))
            else:
                err = p.stderr.read().decode(errors="replace")
                if rc != 0:
                    errs.append("segment %d rc=%s %s" % (i, rc, err[-500:]))
                results[i] = fo
                os.remove(fi)
        running = still
        if time.time() > deadline:
            for (_, p, _, _) in running:
                p.kill()
            return 124, "driver timeout"
        if running:
            time.sleep(0.05)
    with open(os.path.join(ctx.workdir, outfile), "w") as out:
        for i in range(len(segs)):
            with open(results[i]) as f:
                out.write(f.read())
            os.remove(results[i])
    return (1 if errs else 0), "; ".join(errs)[:2000]


def run_batch(ctx, tag, args, seed=None):
    """Run harness + model + oracle for one batch. Returns dict or raises RuntimeError(detail)."""
    old_seed = ctx.seed
    if seed is not None:
        ctx.seed = seed
    try:
        rc, out = ctx.harness("c15", args)
    finally:
        ctx.seed = old_seed
    if rc != 0:
        raise RuntimeError("harness failed rc=%s: %s" % (rc, (out or "")[-1500:]))
    m = re.search(r"cases=(\d+) distinct_nontrivial=(\d+) types=(\d+) markers=(\S*)", out)
    if not m:
        raise RuntimeError("harness output not understood: %s" % out[-500:])
    stats = {"cases": int(m.group(1)), "distinct_nontrivial": int(m.group(2)), "types": int(m.group(3)),
             "markers": dict((kv.split("=")[0], int(kv.split("=")[1])) for kv in m.group(4).split(",") if "=" in kv)}
    rc2, err = _driver(ctx, "cases.txt", "model.txt", "model")
    if rc2 != 0:
        raise RuntimeError("model driver failed rc=%s: %s" % (rc2, err))
    cases, impl, implx, model = (_lines(ctx, n) for n in ("cases.txt", "impl.txt", "implx.txt", "model.txt"))
    if not (len(cases) == len(impl) == len(implx) == len(model)):
        raise RuntimeError("line counts differ: cases=%d impl=%d implx=%d model=%d" % (len(cases), len(impl), len(implx), len(model)))
    with open(os.path.join(ctx.workdir, "merged.txt"), "w") as f:
        for c, i, x in zip(cases, impl, implx):
            f.write("%s | %s | %s\n" % (c, i, x))
    rc3, err = _driver(ctx, "merged.txt", "verdict.txt", "oracle")
    if rc3 != 0:
        raise RuntimeError("oracle driver failed rc=%s: %s" % (rc3, err))
    verdict = _lines(ctx, "verdict.txt")
    if len(verdict) != len(cases):
        raise RuntimeError("verdict line count differs")
    types = {}
    diffs, fails, errors = [], [], []
    per_type = {}
    nontrivial = set()
    for k in range(len(cases)):
        c = cases[k].split(" ")
        if c[0] == "T":
            types[c[1]] = c[2]
        tdesc = types.get(c[1], "?") if len(c) > 1 else "?"
        if c[0] == "C":
            per_type[tdesc] = per_type.get(tdesc, 0) + 1
            if implx[k].endswith(" nt=1"):
                nontrivial.add(hash((tdesc, c[2], c[3])))
        rec = {"type": tdesc, "case": cases[k], "impl": impl[k], "implx": implx[k], "model": model[k], "verdict": verdict[k]}
        if c[0] == "X":
            rec["verdict"] = "FAIL Key::compare is not a consistent order on a triple: " + impl[k]
            fails.append(rec)
            continue
        if verdict[k].startswith("FAIL"):
            fails.append(rec)
        elif verdict[k] != "ok":
            errors.append(rec)
        if impl[k] != model[k]:
            diffs.append(rec)
    for n in ("cases.txt", "impl.txt", "implx.txt", "model.txt", "verdict.txt"):
        shutil.copy(os.path.join(ctx.workdir, n), os.path.join(ctx.workdir, tag + "-" + n))
    return {"stats": stats, "diffs": diffs, "fails": fails, "errors": errors, "per_type": per_type, "nontrivial": nontrivial,
            "samples": [{"case": cases[k], "impl_and_model": impl[k], "oracle": verdict[k]}
                        for k in range(len(cases)) if cases[k].startswith("C ")][::max(1, len(cases) // 5)][:5]}


def reason_class(verdict):
    """A short stable key for a failure reason (first reason, values stripped)."""
    r = verdict[5:].split(";")[0]
    r = re.sub(r"\[[^\]]*\]", "", r)          # bracketed details (which ordering, panic/none) are not part of the key
    r = re.sub(r"(for [ab]=|value )\S+", r"\1_", r)
    r = re.sub(r"[^A-Za-z0-9]+", "_", r)[:50].strip("_")
    return r


def report_fails(ctx, recs, origin):
    """One violation per failure reason; the replay is the smallest failing pair with that reason."""
    groups = {}
    for rec in recs:
        groups.setdefault(reason_class(rec["verdict"]), []).append(rec)
    for rc, g in sorted(groups.items()):
        rec = min(g, key=lambda r: (len(r["case"]), r["case"]))
        c = rec["case"].split(" ")
        types = sorted(set(r["type"] for r in g))
        replay = {"type": rec["type"], "a": c[2] if len(c) > 2 else None, "b": c[3] if len(c) > 3 else None,
                  "case": rec["case"], "impl": rec["impl"], "impl_extra": rec["implx"], "model_would_give": rec["model"],
                  "reasons": rec["verdict"][5:], "found_by": origin,
                  "failing_pairs_with_this_reason": len(g), "failing_types": types,
                  "format": {"impl": "R enc(a) enc(b) cmp(a,b) cmp(b,a) separator(lo,hi) branch_separator(lo,hi) rt(a) rt(b)",
                             "values": "u unit, T/F bool, c<hex> char, n<hex> unsigned, i[-]<hex> signed, s[scalars] str, x[hex] bytes, N none, S<v> some, L[..] array/tuple"},
                  "replay_cmd": "./check C15 --replay <this file>"}
        ctx.violation("c15-" + rc,
                      "property fails on the implementation's output (%d pairs, types %s); smallest: type %s, %s: %s" % (
                          len(g), ",".join(types)[:200], rec["type"], rec["case"][:300], rec["verdict"][5:][:600]),
                      replay)


def do_replay(ctx):
    obj = json.load(open(ctx.replay))
    cov = {"evaluations": 0, "distinct_nontrivial": 0, "rule": "replay of one recorded pair", "trusted_base": TRUSTED}
    if not obj.get("a") or not obj.get("type"):
        print("replay file has no concrete input (%s)" % obj.get("what", "")[:300])
        return ctx.finish("proof", cov, s2_ok=False, s2_detail="replay of a no-failing-input-found record: " + str(obj.get("correspondence"))[:500])
    ctx.proof_obligations()
    res = run_batch(ctx, "replay", [0, obj["type"], "replay", obj["a"], obj["b"]])
    cov["evaluations"] = res["stats"]["cases"]
    cov["distinct_nontrivial"] = res["stats"]["distinct_nontrivial"]
    for rec in res["fails"]:
        print("replay: %s -> %s" % (rec["case"], rec["verdict"]))
    report_fails(ctx, res["fails"], "replay")
    for rec in res["diffs"]:
        print("replay: model/impl differ on %s\n  impl : %s\n  model: %s" % (rec["case"], rec["impl"], rec["model"]))
    if res["stats"]["cases"] == 0:
        return ctx.finish("proof", cov, s2_ok=False, s2_detail="replay type %s is not among the harness types" % obj["type"])
    return ctx.finish("proof", cov, s2_ok=not res["diffs"], s2_detail=[(d["case"], d["impl"], d["model"]) for d in res["diffs"][:3]])


def run(ctx):
    # a private work directory: Ctx() of a concurrent `./check C15` (another builder, the lead) would wipe the shared one
    ctx.workdir = ctx.workdir + "-%d" % os.getpid()
    os.makedirs(ctx.workdir, exist_ok=True)
    try:
        rc = do_replay(ctx) if getattr(ctx, "replay", None) else run_check(ctx)
    finally:
        if not ctx.violations:
            shutil.rmtree(ctx.workdir, ignore_errors=True)
        else:
            print("C15: work files kept in %s" % ctx.workdir)
    return rc


def run_check(ctx):
    t0 = time.time()
    s1 = ctx.proof_obligations()
    print("C15: S1 proof obligations %s in %.1fs (build %.1fs; waits on the shared coq lock included)" % (
        "ok" if s1["ok"] else "BROKEN: " + "; ".join(s1["failed"]), time.time() - t0, s1.get("build_s", 0)), flush=True)
    cov = {"evaluations": 0, "distinct_nontrivial": 0, "trusted_base": TRUSTED}
    s2_ok, detail, searched = True, None, None
    batches = [("random", [300 if ctx.quick else 5000, "-", "random"])]
    if not ctx.quick:
        batches.append(("exhaustive", [0, "-", "exhaustive"]))
    all_diffs, dist, per_type, samples, nontrivial = [], {}, {}, [], set()
    try:
        for tag, args in batches:
            t1 = time.time()
            res = run_batch(ctx, tag, args)
            print("C15: batch %s: %d pairs, %d model/impl differences, %d property failures, %.1fs" % (
                tag, res["stats"]["cases"], len(res["diffs"]), len(res["fails"]), time.time() - t1), flush=True)
            cov["evaluations"] += res["stats"]["cases"]
            nontrivial |= res["nontrivial"]
            cov["distinct_nontrivial"] = len(nontrivial)   # distinct (type, a, b) over all batches of this run
            cov["key_types"] = max(cov.get("key_types", 0), res["stats"]["types"])
            for k, v in res["stats"]["markers"].items():
                dist[k] = dist.get(k, 0) + v
            for k, v in res["per_type"].items():
                per_type[k] = per_type.get(k, 0) + v
            samples += res["samples"]
            report_fails(ctx, res["fails"], tag)
            if res["errors"]:
                s2_ok, detail = False, "oracle could not evaluate %d cases, first: %s" % (len(res["errors"]), res["errors"][0])
            all_diffs += res["diffs"]
        if all_diffs:
            # S2 differs. Per differing case the oracle has already decided whether the property fails there
            # (then it is in `fails`). Otherwise search around the differing types with a bigger budget.
            s2_ok = False
            dtypes = sorted(set(d["type"] for d in all_diffs))
            detail = {"differing_cases": len(all_diffs), "types": dtypes[:20],
                      "first": [{"case": d["case"], "impl": d["impl"], "model": d["model"]} for d in all_diffs[:3]]}
            if not ctx.violations:
                n_search = 0
                budget = 6000 if ctx.quick else 60000
                for i, td in enumerate(dtypes[:8]):
                    res = run_batch(ctx, "search%d" % i, [budget // min(len(dtypes), 8), td, "random"], seed=ctx.seed * 1000 + 17 + i)
                    n_search += res["stats"]["cases"]
                    cov["evaluations"] += res["stats"]["cases"]
                    report_fails(ctx, res["fails"], "directed search on type " + td)
                    if ctx.violations:
                        break
                searched = "directed search: %d more pairs of the differing types %s, oracle found %s" % (
                    n_search, dtypes[:8], "a failing input" if ctx.violations else "no failing input")
    except RuntimeError as e:
        s2_ok, detail = False, str(e)
    cov["rule"] = ("pairs (in clusters of three) from structured generators per key type: equal, adjacent, common prefix of every "
                   "length, first difference inside a multi-byte character, empty, extremes, None/Some mixes, element-wise ties, "
                   "long elements at the varint boundaries 254/65536; non-trivial = distinct pair with a != b that is of a variable "
                   "width type (separator logic runs) or first differs after byte 0 or differs across the 0x80 bit (sign / UTF-8 lead)")
    cov["traces_validated_against_impl"] = cov["evaluations"]
    cov["samples"] = samples[:6]
    cov["input_distribution"] = {"path_markers": dist, "pairs_per_type": per_type}
    cov["correspondence_differences"] = len(all_diffs)
    return ctx.finish("proof", cov,
                      assumptions=["uuid::Uuid is modelled as &[u8;16] (same codec) but not run: the harness is built without the `uuid` feature",
                                   "composite encodings below 4 GiB (has_type), as redb's u32 offsets / varint lengths require",
                                   "Key::compare on malformed encodings (where the Rust code panics) is outside the model"],
                      s2_ok=s2_ok, s2_detail=detail, searched=searched)
