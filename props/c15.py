"""C15 -- Built-in key types order correctly and separators are valid (DESIGN.md section 5, C15)."""
import os
import re


def run(ctx):
    s1 = ctx.proof_obligations()
    n = 20000 if ctx.quick else 400000
    rc, out = ctx.harness("c15", [n])
    s2_ok, detail = True, None
    cov = {"evaluations": 0, "distinct_nontrivial": 0}
    if rc != 0:
        s2_ok, detail = False, "harness failed rc=%s: %s" % (rc, (out or "")[-1500:])
    else:
        m = re.search(r"cases=(\d+) distinct_nontrivial=(\d+)", out)
        cov["evaluations"], cov["distinct_nontrivial"] = int(m.group(1)), int(m.group(2))
        rc2, err = ctx.driver("c15", "cases.txt", "model.txt")
        if rc2 != 0:
            s2_ok, detail = False, "model driver failed rc=%s: %s" % (rc2, err)
        else:
            nl, diffs = ctx.diff_lines("impl.txt", "model.txt")
            cases = open(os.path.join(ctx.workdir, "cases.txt")).read().split("\n")
            cov["samples"] = [{"case": cases[i], "impl_and_model": l} for i, l in
                              enumerate(open(os.path.join(ctx.workdir, "impl.txt")).read().split("\n")[:3])]
            for (ln, a, b) in diffs:
                # a disagreement on a concrete pair IS a failing input: the model's outputs are the
                # ones the theorems are about (value order, valid separator)
                ctx.violation("c15-diff-" + cases[ln - 1].split(" ")[0],
                              "implementation and proved model disagree on %r: impl=%r model=%r" % (cases[ln - 1], a, b),
                              {"case": cases[ln - 1], "impl": a, "model": b,
                               "format": "enc(a) enc(b) cmp(a,b) cmp(b,a) separator decode_ok"})
    cov["rule"] = "pairs from structured generators (equal, adjacent, common prefix, extremes); non-trivial = distinct pair with a != b (and non-empty for bytes)"
    cov["traces_validated_against_impl"] = cov["evaluations"]
    cov["trusted_base"] = ["Coq 8.16.1 kernel + vm_compute", "tools/gen_consts.py", "harness/src/bin/c15.rs",
                           "extraction (ExtrOcamlBasic only) + ocaml/c15_driver.ml"]
    return ctx.finish("proof", cov, assumptions=["model covers the key types listed in coq/Types/KeyTypes.v"],
                      s2_ok=s2_ok, s2_detail=detail)
