"""C12 -- check_integrity never certifies a damaged database (DESIGN.md section 5, C12; design.d/C12.md).

S1  coq/Props/C12.v  (Merkle argument under an injective checksum; model in coq/Integrity/Merkle.v)
S3  harness/src/bin/c12.rs: closed images of generated histories, every alteration class of the property,
    the REAL crate: open + check_integrity + full dump + second check (+ restore of persistent savepoints);
    oracle = the property text.  Panics are reported per panic site (key panic:<file>:<Type::fn>).
S2  (a) byte in the covered set of the served slot altered (outside the super-header) => the crate must
        not go on serving that slot's commit (rule evaluated on every alteration, covered set from the
        independent format reader, cross-checked against the extracted model's `cov`);
    (b) the unaltered image, every header alteration and a sample of page alterations are abstracted into
        the vocabulary of Merkle.v and run through the extracted `recover`; its verdict (clean / repaired /
        failed, which slot) is compared with what the crate served.
    (c) the same blocks plus every length alteration (truncation / extension) go through the extracted
        WHOLE verdict `Verdict.full` (header validation, finalize from the file length, quick path / repair at
        open, layout_matched + recount + allocator comparison in check_integrity; allocator states abstracted
        to one value, so the model is an upper bound): the crate's verdict class must not be cleaner than the
        model's in the order error < Ok(false) < Ok(true), and on the unaltered image the model says Ok(true).
"""
import json
import os
import re

import vlib

BUDGET = {"quick": 100000, "thorough": 1600000}


def build_bin():
    """cargo build --profile c12 (release-like: no debug assertions inside redb), same dirs as vlib.cargo_bin"""
    d, tgt = vlib.harness_dir()
    env = {"RUSTFLAGS": "--cfg %s" % vlib.GUARD, "CARGO_TARGET_DIR": tgt, "CARGO_NET_OFFLINE": "true"}
    rc, out = vlib.sh(["cargo", "build", "--offline", "--profile", "c12", "--bin", "c12"], cwd=d, env=env, timeout=2400)
    if rc != 0:
        return None, out
    return os.path.join(tgt, "c12", "c12"), out


def run_bin(ctx, exe, args, timeout=3000, seed=None):
    env = {"VERIF_SEED": str(ctx.seed if seed is None else seed), "VERIF_TIER": ctx.tier, "RUST_BACKTRACE": "0"}
    return vlib.sh([exe] + [str(a) for a in args], cwd=ctx.workdir, env=env, timeout=timeout)


_FN = re.compile(r"^\s*(?:pub(?:\([^)]*\))?\s+)?(?:const\s+)?(?:unsafe\s+)?fn\s+(\w+)")


def enclosing_fn(loc):
    """name of the function around a panic location (information only; not part of the key)"""
    m = re.match(r"(.*):(\d+)$", loc)
    if not m:
        return "?"
    try:
        src = open(os.path.join(vlib.REPO, m.group(1)), errors="replace").read().split("\n")
    except OSError:
        return "?"
    for i in range(min(int(m.group(2)), len(src)) - 1, -1, -1):
        mm = _FN.match(src[i])
        if mm:
            return mm.group(1)
    return "?"


def panic_key(loc, stage):
    """panic:<stage>:<file> -- stage = open | check1 | dump | check2 | drop, file = source file of the panic
    location.  Deliberately without line or function: other builders add guarded hooks to the same files
    (lines shift), and which of a file's unchecked decoders a random alteration reaches first varies
    with the seed, while (stage, file) is a small closed set.  Line and function are in the replay."""
    m = re.match(r"(.*):(\d+)$", loc)
    return "panic:%s:%s" % (stage, m.group(1) if m else loc)


def model_compare(ctx):
    """S2(b): extracted model verdicts vs what the crate served. Returns (n_compared, mismatches, stats)."""
    real = [l.split("\t") for l in open(os.path.join(ctx.workdir, "real.txt")).read().split("\n") if l]
    model = [l.split("\t") for l in open(os.path.join(ctx.workdir, "model_out.txt")).read().split("\n") if l]
    mism, stats = [], {}
    full_stats, strict = {}, {}
    rank = {"err": 0, "erropen": 0, "errcheck": 0, "false": 1, "true": 2}
    model_compare.full_stats, model_compare.strict = full_stats, strict
    if len(real) != len(model):
        return 0, ["model produced %d verdicts for %d blocks" % (len(model), len(real))], stats
    base_txid = None
    for r, m in zip(real, model):
        rid, code, served, ambiguous, ptrs, spec, cls = (r + [""] * 7)[:7]
        mid, mv, mslot, mptrs, mtxid, fv, ftx = (m + [""] * 7)[:7]
        if rid != mid:
            mism.append("block order differs: %s vs %s" % (rid, mid))
            break
        # ---- (c) whole verdict (Verdict.full) against the crate's verdict class
        if code.startswith("panic") or code in ("abort", "hang", "lost"):
            rc = "panic"
        elif code in ("open-error", "check-error"):
            rc = "err"
        else:
            mo = re.match(r"Ok\((true|false)\)", code)
            rc = mo.group(1) if mo else "?"
        fk = "model=%s real=%s" % (fv, re.sub(r"\+second=.*", "", code))
        full_stats[fk] = full_stats.get(fk, 0) + 1
        if fv in ("badfline", "", "-"):
            mism.append("%s: the driver produced no whole verdict (%r)" % (rid, fv))
        elif rid.endswith("|0"):
            if fv != "true":
                mism.append("unaltered image %s: whole-verdict model says %s, expected true" % (rid, fv))
        elif fv == "indeterminate":
            if rc in ("true", "false"):
                mism.append("%s alteration %s (%s): the crate serves a file (%s) whose slots/pages the independent reader cannot decode" % (rid, spec, cls, code))
        elif fv in rank and rc in rank:
            if rank[rc] > rank[fv]:
                mism.append("%s alteration %s (%s): crate verdict %s is cleaner than the whole-verdict model allows (%s)" % (rid, spec, cls, code, fv))
            elif rank[rc] < rank[fv]:
                strict[cls] = strict.get(cls, 0) + 1
            if fv in ("true", "false") and ftx != mtxid:
                mism.append("%s: whole verdict serves txid %s, recover serves %s (contradicts c12_verdict_monotone: extraction glue?)" % (rid, ftx, mtxid))
        k = "model=%s real=%s" % (mv, re.sub(r"\+second=.*", "", code))
        stats[k] = stats.get(k, 0) + 1
        if rid.endswith("|0"):
            # unaltered image: clean, the selected slot, and the model's covered set is the reader's page set
            base_txid = mtxid
            if mv != "clean" or mslot != served or mptrs != ptrs:
                mism.append("unaltered image %s: model says %s slot %s with %d pages; reader selected slot %s with %d pages"
                            % (rid, mv, mslot, len(mptrs.split(",")), served, len(ptrs.split(","))))
            continue
        # which commit a slot holds is identified by the transaction id stored in it (slot swaps move
        # commits between slot positions); the unaltered image's served slot holds the newest commit
        what = None
        if code.startswith("Ok(") and "+latest" in code:
            if mv == "failed" or (mtxid != base_txid and ambiguous != "1"):
                what = "crate serves the newest commit, model: %s slot %s txid %s (newest is %s)" % (mv, mslot, mtxid, base_txid)
        elif code.startswith("Ok(") and "+older" in code:
            if mv == "failed" or (mtxid == base_txid and ambiguous != "1"):
                what = "crate serves an older commit, model: %s slot %s txid %s (newest is %s)" % (mv, mslot, mtxid, base_txid)
        if what:
            mism.append("%s alteration %s (%s): %s; crate verdict %s" % (rid, spec, cls, what, code))
    return len(real), mism, stats


def crosscheck_reader(ctx):
    """Classification cross-check: the page list (start, end, covered length) that harness/src/c12_fmt.rs
    derives for every unaltered image vs b-fmt's extracted Coq reader (design.d/FORMAT.md, `fmt_driver pages`)."""
    res = {"images": 0, "agree": 0, "skipped": None, "differences": []}
    try:
        exe, log = vlib.ocaml_driver("fmt")
    except Exception as ex:  # noqa
        exe, log = None, str(ex)
    if exe is None:
        res["skipped"] = "fmt_driver not available: %s" % (log or "")[-300:]
        return res
    for f in sorted(os.listdir(ctx.workdir)):
        m = re.match(r"pages_(.*)\.txt$", f)
        if not m:
            continue
        img = os.path.join(ctx.workdir, "img_%s.bin" % m.group(1))
        if not os.path.exists(img):
            continue
        rc, out = vlib.sh([exe, "pages", img, "recover"], cwd=ctx.workdir, timeout=300)
        mine = sorted(tuple(int(x) for x in l.split()) for l in open(os.path.join(ctx.workdir, f)).read().split("\n") if l)
        theirs = sorted((int(a), int(b), int(c)) for a, b, c in
                        re.findall(r"^page .*? start=(\d+) end=(\d+) .*? cov=(\d+)", out, flags=re.M))
        res["images"] += 1
        if rc != 0 or "wf=ok" not in out:
            res["differences"].append("%s: fmt_driver rc=%s, no wf=ok (%s)" % (m.group(1), rc, out[-200:].replace("\n", " | ")))
        elif mine != theirs:
            only_m = [x for x in mine if x not in theirs][:3]
            only_t = [x for x in theirs if x not in mine][:3]
            res["differences"].append("%s: %d vs %d pages; only c12_fmt %s; only fmt_driver %s" % (m.group(1), len(mine), len(theirs), only_m, only_t))
        else:
            res["agree"] += 1
    return res


def one_run(ctx, exe, budget, seed=None):
    for f in os.listdir(ctx.workdir):
        if f in ("c12_report.json", "model_in.txt", "real.txt", "model_out.txt") or re.match(r"(img|pages|cps)_", f):
            try:
                os.remove(os.path.join(ctx.workdir, f))
            except OSError:
                pass
    rc, out = run_bin(ctx, exe, ["run", budget], seed=seed)
    rp = os.path.join(ctx.workdir, "c12_report.json")
    if rc != 0 or not os.path.exists(rp):
        return None, "harness rc=%s: %s" % (rc, (out or "")[-2000:])
    rep = json.load(open(rp))
    rep["_stdout"] = out
    return rep, None


def report_findings(ctx, rep):
    """S3: turn the harness report into violations (keys documented in design.d/C12.md)."""
    # one report per kind of failure (false-clean / bad-repair / unstable-clean / baseline-not-clean); the byte
    # classes it was seen in and the number of alterations go into the replay object
    kinds = {}
    for v in rep["violations"]:
        kind, _, cls = v["key"].partition(":")
        e = kinds.setdefault(kind, {"first": v, "n": 0, "classes": {}})
        e["n"] += 1
        e["classes"][cls or "-"] = e["classes"].get(cls or "-", 0) + 1
    for kind, e in kinds.items():
        v = e["first"]
        ctx.violation(kind, "%s  [%d alterations of this kind in this run, %d byte classes]" % (v["what"], e["n"], len(e["classes"])),
                      dict(v["replay"], occurrences_this_run=e["n"], byte_classes=e["classes"]))
    by_key = {}
    for p in rep["panics"]:
        loc = p["key"][len("panic:"):]
        key = panic_key(loc, p["replay"].get("panic_stage", "?"))
        e = by_key.setdefault(key, {"count": 0, "sites": {}, "first": p})
        e["count"] += p["count"]
        e["sites"]["%s (fn %s): %s" % (loc, enclosing_fn(loc), p["message"][:120])] = p["count"]
        if p["count"] > e["first"]["count"]:
            e["first"] = p
    for key, e in sorted(by_key.items()):
        p = e["first"]
        loc = p["key"][len("panic:"):]
        ctx.violation(key, "altering a closed database file makes redb PANIC (neither an error nor Ok(false)) during %s: %d alterations in this run at %d site(s) of this file; most frequent: %s at %s (fn %s), e.g. alteration %s"
                      % (p["replay"].get("panic_stage"), e["count"], len(e["sites"]), p["message"], loc, enclosing_fn(loc), str(p["replay"].get("alteration"))[:200]),
                      dict(p["replay"], panic_site=loc, panic_fn=enclosing_fn(loc), occurrences_this_run=e["count"], sites=e["sites"]))
    if rep["savepoint_findings"]:
        n = sum(x["count"] for x in rep["savepoint_findings"])
        first = rep["savepoint_findings"][0]
        ctx.violation("savepoint-unverified",
                      "check_integrity certifies a file whose persistent savepoint is damaged (pages reachable only from a savepoint are not verified): %d alterations in this run; first: %s"
                      % (n, first["what"]),
                      dict(first["replay"], byte_classes={x["byte_class"]: x["count"] for x in rep["savepoint_findings"]}))


def replay(ctx, exe):
    obj = json.load(open(ctx.replay))
    args = ["replay", obj["history_seed"], obj["profile"], obj["image"], obj["alteration"]]
    rc, out = run_bin(ctx, exe, args)
    vlib.log(out)
    bad = bool(re.search(r"PANIC|NOT-A-COMMIT-POINT|DUMP-FAILED|savepoints=bad", out)) or \
        bool(re.search(r"verdict: Ok\(false\).*second=(?!true)", out))
    vlib.log("REPLAY %s" % ("reproduces" if bad else "does not reproduce"))
    return 1 if bad else 0


def run(ctx):
    exe, out = build_bin()
    if exe is None:
        ctx.violation("machinery-error", "harness build failed: " + out[-3000:], {}, no_input=True)
        return ctx.finish("other", {"explanation": "harness build failed", "evaluations": 1, "distinct_nontrivial": 0})
    if getattr(ctx, "replay", None):
        return replay(ctx, exe)
    s1 = ctx.proof_obligations(extra_targets=["Extract/ExC12.vo"])
    budget = BUDGET[ctx.tier]
    rep, err = one_run(ctx, exe, budget)
    cov = {"evaluations": 0, "distinct_nontrivial": 0}
    s2_ok, s2_detail, searched = True, None, None
    if rep is None:
        s2_ok, s2_detail = False, err
    else:
        vlib.log(rep["_stdout"][-6000:])
        # distribution of altered byte positions (single-class alterations; the full table incl. the verdict per
        # class is in .cache/work/C12/c12_report.json: class_verdict)
        single = sorted(((v, k) for k, v in rep["by_byte_class"].items() if " & " not in k), reverse=True)
        multi = sum(v for k, v in rep["by_byte_class"].items() if " & " in k)
        vlib.log("byte classes (%d single-class, %d alterations spanning several classes):" % (len(single), multi))
        for v, k in single:
            vlib.log("  class %7d %s" % (v, k))
        if rep["fatal"]:
            # the spec and the crate disagree on an UNALTERED history: not a C12 question, but nothing
            # below can be trusted then
            ctx.violation("history-spec-mismatch", "generated history: spec and database disagree before any alteration: %s" % rep["fatal"][0][:1500],
                          {"fatal": rep["fatal"]})
        report_findings(ctx, rep)
        mism_rule = rep["s2_mismatch_count"]
        rc2, derr = ctx.driver("c12", "model_in.txt", "model_out.txt", args=["%x" % 512])
        if rc2 != 0:
            s2_ok, s2_detail = False, "model driver failed rc=%s: %s" % (rc2, derr)
            n_model, mism_model, mstats = 0, [], {}
        else:
            n_model, mism_model, mstats = model_compare(ctx)
        xc = crosscheck_reader(ctx)
        cov["format_reader_crosscheck"] = xc
        cov["s2"] = {"covered_byte_rule_mismatches": mism_rule, "model_vs_crate_mismatches": len(mism_model),
                     "model_blocks_compared": n_model}
        if mism_rule or mism_model or xc["differences"]:
            s2_ok = False
            s2_detail = {"covered_byte_rule_mismatches": mism_rule,
                         "first_rule_mismatches": [m["what"] for m in rep["s2_mismatch"][:5]],
                         "first_rule_replay": rep["s2_mismatch"][0]["replay"] if rep["s2_mismatch"] else None,
                         "model_vs_crate_mismatches": len(mism_model), "first_model_mismatches": mism_model[:5],
                         "format_reader_differences": xc["differences"][:5]}
        cov.update({
            "evaluations": rep["evaluations"],
            "distinct_nontrivial": rep["distinct_nontrivial"],
            "rule": "one evaluation = one altered image put through open + check_integrity + full dump + second check (+ savepoint restores) on the real crate; "
                    "non-trivial = distinct (byte class, alteration) whose changed byte lies in the covered set (served slot, header geometry/magic/god byte, [0,end) of a reachable page)",
            "samples": rep["samples"][:4],
            "traces_validated_against_impl": n_model,
            "model_vs_crate": mstats,
            "whole_verdict_model_vs_crate": getattr(model_compare, "full_stats", {}),
            "whole_verdict_crate_strictly_below_model_by_class": getattr(model_compare, "strict", {}),
            "images": rep["images"],
            "history_ops": rep["history_ops"],
            "by_alteration_kind": rep["by_alteration_kind"],
            "by_verdict": rep["by_verdict"],
            "by_byte_class": rep["by_byte_class"],
            "error_kinds": dict(sorted(rep["error_kinds"].items(), key=lambda kv: -kv[1])[:25]),
            "served_older_commit": rep["served_older_commit"],
            "panic_sites": {p["key"]: p["count"] for p in rep["panics"]},
            "savepoint_findings": sum(x["count"] for x in rep["savepoint_findings"]),
            "model_blocks_skipped_undecodable": rep["model_skipped_undecodable"],
        })
        if not s2_ok and not ctx.violations and rep is not None:
            # directed search: a model/implementation difference alone is not a violation; look for an
            # input on which the property itself fails, with a 4x budget and fresh histories
            found = 0
            for k in (1, 2):
                rep2, err2 = one_run(ctx, exe, budget * 2, seed=ctx.seed * 1000 + k)
                if rep2 is None:
                    continue
                report_findings(ctx, rep2)
                found += len(rep2["violations"])
                cov["evaluations"] += rep2["evaluations"]
            searched = "re-ran the sweep on fresh histories with 4x the budget (seeds %d, %d): %d property violations found" % (
                ctx.seed * 1000 + 1, ctx.seed * 1000 + 2, found)
    cov["trusted_base"] = [
        "Coq 8.16.1 kernel + vm_compute (examples)", "tools/gen_consts.py (MAX_BTREE_DEPTH)",
        "harness/src/bin/c12.rs + c12_hist.rs (generators, spec of commit points, oracle)",
        "harness/src/c12_fmt.rs (independent format reader: abstraction image -> forest, covered set, byte classes)",
        "extraction (ExtrOcamlBasic only) + ocaml/c12_driver.ml (H and parse instantiated by per-image tables)",
        "redb::verif::xxh3_128 as the value of H on the inputs that occur",
    ]
    assumptions = [
        "H_inj: the checksum function is injective (explicit premise of every detection theorem; real XXH3-128 only by the sweep)",
        "whole verdict (Verdict.v): allocator states are abstract values with an equality test, `rebuild`/`counted`/`f_loaded` abstract inputs; per run they are instantiated by 'equal / succeeds' (model = upper bound of the crate's verdict) and by the reader's table recount",
        "a reader's view is a function of the covered prefixes [0,end) of the pages it reaches (bytes beyond `end` unread): validated by the sweep (class */beyond-used), not proved",
        "commit points represented in a file = the two slots; that the original file's slots hold exactly what their commits wrote is C10/C01",
    ]
    return ctx.finish("proof", cov, assumptions=assumptions, s2_ok=s2_ok, s2_detail=s2_detail, searched=searched)
