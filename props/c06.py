"""C06 -- Every page has exactly one owner; no leak, no early reuse (DESIGN.md section 5, C06; as built: design.d/C06.md).

S1  coq/Props/C06.v: invariant of the page-ownership state machine (coq/Txn/Own.v) over all histories,
    no_early_free / no_leak / bounded_storage, soundness of the boolean checker own_checkb.
S3  after EVERY API call of random histories on the real crate: H3 snapshot + reachability -> abstract
    state -> extracted own_checkb (exact accounting, pinned pages covered, ...) + Rust-side direct
    checks (pinned pages keep their bytes, tracker refcounts, storage returns to pages(current)).
S2  every observed transition equals the model's `step` under the observed oracle (tree page sets).
"""
import json
import os
import re

from props import own_common


def run(ctx):
    return own_common.run(ctx, "C06", "c06",
                          quick=(220, 40), thorough=(6000, 60),
                          assumptions=[
                              "b-tree page churn, record pagination, DATA_ALLOCATED/PageTracker and the "
                              "unprocessed-commit scan window are abstracted in the model (see coq/Txn/Own.v header); "
                              "their effect is validated per run by S2, not proved",
                              "each API call is one atomic model step (schedules: see C03/C16)",
                              "reachability is computed with redb's own tree walkers through hook H3",
                          ])
