"""C06 -- Every page has exactly one owner; no leak, no early reuse (DESIGN.md section 5, C06; as built: design.d/C06.md).

S1  coq/Props/C06.v: invariant of the page-ownership state machine (coq/Txn/Own.v) over all histories,
    no_early_free / no_leak / bounded_storage, soundness of the boolean checker own_checkb.
S3  after EVERY API call of random histories on the real crate: H3 snapshot + reachability -> abstract
    state -> extracted own_checkb (exact accounting, pinned pages covered, ...) + Rust-side direct
    checks (pinned pages keep their bytes, tracker refcounts, storage returns to pages(current)).
S2  every observed transition equals the model's `step` under the observed oracle (tree page sets).
"""
import json
import os
import re

from props import own_common


def reader_schedules(ctx, cov):
    """Readers against concurrent commits: the histories above make one API call at a time, so a reader whose registration
    interleaves with a commit is not among them. The forced begin_read-split and commit-gap schedules of the C02 harness
    (pause points between the lock-protected sections of begin_read and of the commit paths) are run here as well and
    judged by C06's clause: a page reachable from a live read transaction is never freed or rewritten."""
    rc, out = ctx.harness("c02", [0, 30], timeout=1500)
    m = re.search(r"splits=(\d+)", out or "")
    if rc != 0 or not m:
        return False, "harness c02 (reader schedules) failed rc=%s: %s" % (rc, (out or "")[-600:])
    cov["reader_schedules"] = int(m.group(1))
    cov["evaluations"] += int(m.group(1))
    seen = set()
    p = os.path.join(ctx.workdir, "oracle.txt")
    for l in (open(p).read().split("\n") if os.path.exists(p) else []):
        f = l.split("|", 2)
        if len(f) == 3 and f[0] == "V" and f[1] not in seen:
            seen.add(f[1])
            ctx.violation("c06-live-reader-" + f[1].replace("c02-", ""),
                          "a page reachable from a live read transaction was freed / reused / rewritten under a forced schedule "
                          "(reader registration or a commit split at a pause point): " + f[2][:700],
                          {"harness": "c02", "args": [0, 30], "key": f[1], "what": f[2][:3000],
                           "how": "VERIF_SEED=%d: harness c02 0 30 (forced begin_read-split and commit-gap schedules); oracle.txt" % ctx.seed})
    return True, None


def run(ctx):
    return own_common.run(ctx, "C06", "c06", extra_stage=reader_schedules,
                          quick=(220, 40), thorough=(6000, 60),
                          assumptions=[
                              "b-tree page churn, record pagination, DATA_ALLOCATED/PageTracker and the "
                              "unprocessed-commit scan window are abstracted in the model (see coq/Txn/Own.v header); "
                              "their effect is validated per run by S2, not proved",
                              "each API call is one atomic model step (schedules: see C03/C16)",
                              "reachability is computed with redb's own tree walkers through hook H3",
                          ])
