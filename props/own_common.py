"""Shared driver for the two checks built on the page-ownership model (C06, C05): run the harness binary,
feed its trace to the extracted checker/model (ocaml/c06_driver.ml), apply the decision protocol."""
import json
import os
import re

OKS = ("ok", "opaque", "first")


def _run_once(ctx, binname, n, steps, extra=()):
    """returns dict(ok, detail, head, s3fail[(label,what)], s2bad[(label,what)], rust[str], states, s2checked)"""
    res = {"ok": True, "detail": None, "head": "", "s3fail": [], "s2bad": [], "rust": [], "states": 0, "s2checked": 0}
    rc, out = ctx.harness(binname, [n, steps] + list(extra))
    if rc != 0:
        res["ok"], res["detail"] = False, "harness %s failed rc=%s: %s" % (binname, rc, (out or "")[-1500:])
        return res
    res["head"] = out
    rc2, err = ctx.driver("c06", "trace.txt", "verdict.txt")
    if rc2 != 0:
        res["ok"], res["detail"] = False, "model driver failed rc=%s: %s" % (rc2, err)
        return res
    for line in open(os.path.join(ctx.workdir, "verdict.txt")):
        parts = line.split()
        if len(parts) != 3:
            continue
        label, s3, s2 = parts[0], parts[1][3:], parts[2][3:]
        res["states"] += 1
        if s3 != "ok":
            res["s3fail"].append((label, s3))
        if s2 not in OKS:
            res["s2bad"].append((label, s2))
        if s2 == "ok":
            res["s2checked"] += 1
    rv = open(os.path.join(ctx.workdir, "rust_viol.txt")).read().strip()
    res["rust"] = [l for l in rv.split("\n") if l]
    return res


def _hist_of(label):
    m = re.match(r"h(\d+)\.(\d+):", label)
    return (int(m.group(1)), int(m.group(2))) if m else (None, None)


def _history_log(ctx, binname, n, steps, hist):
    """re-run one history to obtain its API-call log (deterministic for a seed)"""
    rc, out = ctx.harness(binname, [n, steps, "only", hist])
    p = os.path.join(ctx.workdir, "history_logs.txt")
    return open(p).read().split("\n")[:400] if os.path.exists(p) else []


def _report(ctx, pid, binname, n, steps, res):
    """turn S3 / Rust-side failures into replayable violations"""
    seen = set()
    for label, what in res["s3fail"]:
        h, st = _hist_of(label)
        first = what.split(":", 1)[1].split(",")[0] if ":" in what else what
        key = "%s-own_checkb-%s" % (pid.lower(), re.sub(r"\(.*", "", first))
        if key in seen:
            continue
        seen.add(key)
        ctx.violation(key,
                      "page-ownership invariant violated on the implementation after `%s`: own_checkb false, failing conjunct(s): %s"
                      % (label, what),
                      {"harness": binname, "histories": n, "steps": steps, "history": h, "step": st, "state_label": label,
                       "failing_conjuncts": what, "api_calls": _history_log(ctx, binname, n, steps, h),
                       "replay_cmd": "VERIF_SEED=%d ./check %s --replay <this file>" % (ctx.seed, pid)})
    for v in res["rust"]:
        m = re.match(r"h(\d+)", v)
        h = int(m.group(1)) if m else None
        kind = re.sub(r"[0-9]+", "N", re.sub(r"^h\d+( s\d+)?( after `[^`]*`)?: ", "", v))[:50]
        key = "%s-direct-%s" % (pid.lower(), re.sub(r"[^A-Za-z]+", "_", kind))
        if key in seen:
            continue
        seen.add(key)
        ctx.violation(key, "direct check on the implementation failed: " + v,
                      {"harness": binname, "histories": n, "steps": steps, "history": h, "message": v,
                       "api_calls": _history_log(ctx, binname, n, steps, h) if h is not None else []})


def run(ctx, pid, binname, quick, thorough, assumptions, extra_stage=None):
    s1 = ctx.proof_obligations()
    n, steps = quick if ctx.quick else thorough
    replay = getattr(ctx, "replay", None)
    extra = ()
    if replay:
        rp = json.load(open(replay))
        n, steps = rp.get("histories", n), rp.get("steps", steps)
        if rp.get("history") is not None:
            extra = ("only", rp["history"])
    res = _run_once(ctx, binname, n, steps, extra)
    cov = {"evaluations": res["states"], "distinct_nontrivial": 0}
    s2_ok, detail, searched = True, None, None
    if not res["ok"]:
        s2_ok, detail = False, res["detail"]
    else:
        m = re.search(r"distinct_situations=(\d+)", res["head"])
        cov["distinct_nontrivial"] = int(m.group(1)) if m else 0
        m = re.search(r"histories=(\d+) states=(\d+)", res["head"])
        cov["histories"] = int(m.group(1)) if m else 0
        mo = re.search(r"ops: (.*)", res["head"])
        cov["op_distribution"] = dict((k, int(v)) for k, v in (kv.split("=") for kv in mo.group(1).split())) if mo else {}
        mr = re.search(r"max_regions_in_use=(\d+)", res["head"])
        cov["max_regions_in_use"] = int(mr.group(1)) if mr else 0
        mp = re.search(r"plateau=(\[.*\])", res["head"])
        cov["churn_allocated_pages_series"] = mp.group(1)[:300] if mp else ""
        cov["traces_validated_against_impl"] = res["s2checked"]
        cov["states_checked_by_own_checkb"] = res["states"]
        tl = open(os.path.join(ctx.workdir, "trace.txt")).read().split("\n")
        cov["samples"] = [l[:600] for l in tl[:6]]
        _report(ctx, pid, binname, n, steps, res)
        if res["s2bad"] and not ctx.violations:
            # model and implementation differ but the property itself held on everything seen so far:
            # directed search = a larger budget of histories (same generator, more and longer), looking for
            # an S3 / direct failure
            s2_ok = False
            detail = {"first_differences": res["s2bad"][:5],
                      "api_calls": _history_log(ctx, binname, n, steps, _hist_of(res["s2bad"][0][0])[0])[:120]}
            big = _run_once(ctx, binname, n * 4, steps + 20)
            searched = "re-ran %d histories x %d steps: %d S3 failures, %d direct failures" % (
                n * 4, steps + 20, len(big["s3fail"]), len(big["rust"]))
            if big["ok"]:
                _report(ctx, pid, binname, n * 4, steps + 20, big)
    if extra_stage is not None and not replay:
        # property-specific additional stage (may call ctx.violation and add to cov); returns (ok, detail) for S2
        ok2, d2 = extra_stage(ctx, cov)
        if not ok2:
            s2_ok, detail = False, ((str(detail) + " | ") if detail else "") + str(d2)
    cov["rule"] = ("random histories of API calls (begin/commit of every durability incl. 2PC and quick-repair, abort, drop, "
                   "readers, ephemeral/persistent savepoints, restore, reopen, compact, check_integrity, table and multimap "
                   "writes/deletes over small pages/regions); one evaluation = one observed state after an API call; "
                   "non-trivial+distinct = distinct (API-call kind, in-txn?, #pins, #pending non-durable, which freed tables "
                   "are non-empty, #regions in use) situations")
    cov["trusted_base"] = ["Coq 8.16.1 kernel", "hook H3 (redb's own tree walkers, snapshot accessors)",
                           "harness/src/own_util.rs + bin/%s.rs (abstraction of snapshots to page-id sets)" % binname,
                           "extraction (ExtrOcamlBasic) + ocaml/c06_driver.ml (parsing, set comparison)"]
    return ctx.finish("proof", cov, assumptions=assumptions, s2_ok=s2_ok, s2_detail=detail, searched=searched)
