"""C19 -- Files stay readable across releases that share the file format (DESIGN.md section 5, C19).

S1  Coq: prefix_separators_legal (compare-only routing gives the leaf-scan answer for any legal
    separator), system record codecs round-trip on the regenerated constants (coq/Props/C19.v).
S2  the format model vs BOTH releases: every image written by either release is read by the extracted
    Coq reader (wf + contents = spec); an image assembled by the model's encoders is opened by both
    releases with the intended contents and lookups.
S3  direct oracle: files written by the working tree are opened by redb 3.0.0 (contents must equal the
    sorted-map spec, check_integrity() must be Ok(true)), and files written by 3.0.0 are opened by the
    working tree.  Images: after every durable commit (= crash images: never cleanly closed), after
    compaction, after clean close; persistent savepoints; long common-prefix variable-width keys.
"""
import os
import re

import vlib
from props import c10


def readback(ctx, d):
    out = []
    for l in open(os.path.join(d, "readback.txt")).read().split("\n"):
        if l:
            f = l.split(" ")
            kv = dict(x.split("=", 1) for x in f[1:4])
            out.append((f[0], kv, l))
    return out


def index_meta(d):
    m = {}
    for l in open(os.path.join(d, "index.txt")).read().split("\n"):
        if l:
            f = l.split(" ")
            m[f[0]] = dict(x.split("=", 1) for x in f[2:])
    return m


def replay(ctx):
    """./check C19 --replay <json>: re-read the image named in the replay with both releases (if it still exists)"""
    import json
    r = json.load(open(ctx.replay))
    img = r.get("saved_image") or r.get("image")
    if r.get("saved_image"):
        exe, _ = vlib.ocaml_driver("fmt")
        return c10.replay(ctx, exe)
    d = os.path.dirname(img or "")
    if not img or not os.path.exists(os.path.join(d, "index.txt")):
        vlib.log("replay: %s is not available any more; regenerate with: %s" % (img, r.get("how")))
        return 2
    bad = 0
    for reader in ("v3", "cur"):
        rc, out = ctx.harness("c19", ["check", d, reader])
        for l in open(os.path.join(d, "readback.txt")).read().split("\n"):
            if l.startswith(os.path.basename(img) + " "):
                vlib.log(l[:400])
                if "contents=same integrity=Ok(true)" not in l:
                    bad += 1
    vlib.log("REPLAY %s" % ("still fails" if bad else "no longer fails"))
    return 1 if bad else 0


def alloc_state_larger_than_layout(exe, img):
    """compare the page count inside each allocator-state `region:<r>` entry (u32 at byte 4 of the serialized
    buddy allocator) with the pages that region has in the layout"""
    rc, out = vlib.sh([exe, "dump", img])
    lay = re.search(r"^layout .*region_max_data_pages=(\d+) full_regions=(\d+) trailing_pages=(\d+)", out, re.M)
    if not lay:
        return None
    maxp, full, trailing = int(lay.group(1)), int(lay.group(2)), int(lay.group(3))
    res = {"larger": False, "regions": []}
    for m in re.finditer(r"^alloc_state key=region:(\d+) len=\d+ bytes=([0-9a-f]+)", out, re.M):
        r, b = int(m.group(1)), bytes.fromhex(m.group(2))
        n = int.from_bytes(b[4:8], "little")
        pages = maxp if r < full else (trailing if r == full else 0)
        res["regions"].append({"region": r, "allocator_pages": n, "layout_pages": pages})
        if n > pages:
            res["larger"] = True
    return res


def run(ctx):
    if getattr(ctx, "replay", None):
        return replay(ctx)
    s1 = ctx.proof_obligations()
    cov = {"evaluations": 0, "distinct_nontrivial": 0}
    s2_ok, detail = True, None
    exe, out = vlib.ocaml_driver("fmt")
    if exe is None:
        return ctx.finish("proof", cov, s2_ok=False, s2_detail="fmt driver build failed: " + out[-1500:])
    n = 10 if ctx.quick else 120
    dirs = {}
    dist = {}
    for direction in ("fwd", "rev"):
        d = os.path.join(ctx.workdir, direction)
        dirs[direction] = d
        rc, out = ctx.harness("c19", [direction, n, d], timeout=3000)
        if rc != 0:
            return ctx.finish("proof", cov, s2_ok=False, s2_detail="harness c19 %s failed rc=%s: %s" % (direction, rc, (out or "")[-1500:]))
        lines = out.strip().split("\n")
        dist[direction] = lines[-2][:1500]
        m = re.search(r"harness_errors=(\d+)(.*)", lines[-2])
        if m and int(m.group(1)) > 0:
            s2_ok = False
            detail = {"what": "writer (%s) returned an unexpected error / panicked inside a generated history" % direction, "summary": m.group(0)[:1200]}
    cov["history_distribution"] = dist

    # ---- S3: the other release reads every image
    counts = {}
    bad_total = 0
    for direction, reader in (("fwd", "redb 3.0.0"), ("rev", "working tree")):
        d = dirs[direction]
        meta = index_meta(d)
        for img, kv, line in readback(ctx, d):
            ev = meta[img].get("event", "?")
            counts[(direction, ev)] = counts.get((direction, ev), 0) + 1
            replay = {"direction": direction + " (writer -> reader: %s)" % ("working tree -> redb 3.0.0" if direction == "fwd" else "redb 3.0.0 -> working tree"),
                      "image": os.path.join(d, img), "event": ev, "readback": line[:600],
                      "how": "VERIF_SEED=%d harness c19 %s %d <dir>  (then: c19 check <dir> v3|cur)" % (ctx.seed, direction, n)}
            if kv["contents"] != "same":
                bad_total += 1
                key = "c19-%s-contents-%s" % (direction, kv["contents"].lower())
                # one specific, recorded panic: the working tree's debug-build-only post-repair check
                # (check_repaired_allocated_pages_table) asserts that every page named by DATA_ALLOCATED is
                # allocated; files written by 3.0.0 after a persistent savepoint was deleted / restored name freed
                # pages there (a 3.0.0 defect fixed since, see CHANGELOG). Any other panic keeps the general key.
                if direction == "rev" and "mem.is_allocated(pages.value().get(i))" in line:
                    key += ":debug-assert-data-allocated-names-free-page"
                ctx.violation(key,
                              "%s could not read image %s (%s) written by the other release with identical contents: %s" % (reader, img, ev, line[:300]), replay)
            elif kv["integrity"] != "Ok(true)":
                # control measured by the harness authors: 3.0.0 reports Ok(false) on images taken right after
                # compact() also for files it wrote itself, so that alone is not attributable to the writer
                if direction == "fwd" and ev == "compact" and kv["integrity"] == "Ok(false)":
                    counts[("fwd", "compact-integrity-false-as-in-3.0.0-own-files")] = counts.get(("fwd", "compact-integrity-false-as-in-3.0.0-own-files"), 0) + 1
                    continue
                bad_total += 1
                key = "c19-%s-integrity-%s" % (direction, ev)
                if direction == "fwd" and kv["integrity"] == "Ok(false)":
                    # known finding F-C19-2 has a narrow signature: a CLEANLY CLOSED file whose allocator-state
                    # table still serialises a region allocator larger than the region in the (shrunk) layout
                    sig = alloc_state_larger_than_layout(exe, os.path.join(d, img))
                    replay["allocator_state_vs_layout"] = sig
                    if ev == "close" and sig and sig["larger"]:
                        key = "c19-v3-integrity-false-after-clean-close"
                    elif ev == "close" and "grew=1" in line.split(" "):
                        # recorded finding: the file was trimmed at close so tightly that 3.0.0 has to GROW it while
                        # opening it; 3.0.0 then reports Ok(false) once (its own unpublished-growth behaviour, the
                        # same as this tree's recorded C11 finding) and Ok(true) from the second call on
                        key = "c19-v3-integrity-false-close-grown-on-open"
                    elif ev == "close":
                        key = "c19-v3-integrity-false-close-other"
                    else:
                        key = "c19-v3-integrity-false-commit"
                ctx.violation(key, "%s opens image %s (%s) with identical contents but its check_integrity() = %s" % (reader, img, ev, kv["integrity"]), replay)
    cov["readback"] = {"%s/%s" % k: v for k, v in sorted(counts.items())}
    cov["readback_bad"] = bad_total

    # ---- directed: composite type names (classification byte 4 is unknown to 3.0.0)
    d = os.path.join(ctx.workdir, "composite")
    rc, out = ctx.harness("c19", ["composite", d], timeout=1500)
    if rc != 0:
        s2_ok, detail = False, "harness c19 composite failed: %s" % (out or "")[-800:]
    else:
        rb = readback(ctx, d)
        badc = [x for x in rb if x[1]["contents"] != "same" or x[1]["integrity"] != "Ok(true)"]
        cov["composite_type_images"] = len(rb)
        cov["composite_type_images_unreadable_by_3.0.0"] = len(badc)
        if badc:
            ctx.violation("c19-composite-typename-classification",
                          "redb 3.0.0 cannot open tables whose key/value type is a composite ([u8;N], tuple, ...) written by the working tree: %s" % badc[0][2][:300],
                          {"image": os.path.join(d, badc[0][0]), "readback": badc[0][2][:600], "unreadable": len(badc), "of": len(rb),
                           "cause": "working tree stores TypeClassification::Internal3 (byte 4) for composite type names; 3.0.0's TypeClassification::from_byte is unreachable!() on 4",
                           "how": "VERIF_SEED=%d harness c19 composite <dir>" % ctx.seed})

    # ---- directed: the length the page checksum covers swept around every multiple of 64 (both directions, crash + clean image)
    rc, out = ctx.harness("c19", ["lensweep", "40" if ctx.tier == "quick" else "400", "4162" if ctx.tier == "quick" else "8258",
                                  "1" if ctx.tier == "quick" else "2"], timeout=2400)
    m = re.search(r"lensweep cases=(\d+) bad=(\d+) lengths_at_multiples_of_1024=(\d+)", out or "")
    if rc != 0 or not m:
        s2_ok, detail = False, "harness c19 lensweep failed: %s" % (out or "")[-800:]
    else:
        cov["lensweep"] = {"cases": int(m.group(1)), "bad": int(m.group(2)), "lengths_at_multiples_of_1024": int(m.group(3))}
        cov["evaluations"] += int(m.group(1))
        if "LENSWEEP-WRITER-FAILED" in out:
            s2_ok, detail = False, "lensweep: a writer failed: %s" % [l for l in out.split("\n") if l.startswith("LENSWEEP-WRITER-FAILED")][:3]
        badl = [l for l in out.split("\n") if l.startswith("LENSWEEP-BAD")]
        for l in badl[:1]:
            kv = dict(x.split("=", 1) for x in l.split(" ")[1:6])
            ctx.violation("c19-lensweep-%s-%s" % (kv["dir"], kv["image"]),
                          "single-pair table u64 -> &[u8] whose root leaf's checksummed prefix is %s bytes, written by %s (%s image), is not read back "
                          "with identical contents and check_integrity Ok(true) by %s: %s (%d of %s sweep cases fail)"
                          % (kv["covered"], "the working tree" if kv["dir"] == "fwd" else "redb 3.0.0", kv["image"],
                             "redb 3.0.0" if kv["dir"] == "fwd" else "the working tree", l.split(" ", 6)[-1][:300], len(badl), m.group(1)),
                          {"how": "VERIF_SEED=%d harness c19 lensweep 0 %s 0   (value length %s, fill byte %s, direction %s)" % (ctx.seed, kv["covered"], kv["vlen"], kv["fill"], kv["dir"]),
                           "line": l[:600], "failing_cases": [x[:200] for x in badl[:20]]})
    # ---- S2: the Coq reader on both releases' files
    for direction in ("fwd", "rev"):
        sub = {}
        nimg, bad = c10.check_images(ctx, exe, dirs[direction], sub, key_prefix="c19-model-" + direction)
        cov["evaluations"] += nimg
        cov["distinct_nontrivial"] += sub.get("distinct_nontrivial", 0)
        cov["model_reader_" + direction] = {"images": nimg, "rejected": bad, "pages": sub.get("pages_decoded", 0),
                                            "path_markers": sub.get("path_markers", {}), "table_kinds": sub.get("table_kinds", {})}
        if direction == "fwd":
            cov["samples"] = sub.get("samples", [])
    # ---- S2: model writer -> real readers
    img = os.path.join(ctx.workdir, "model4096.bin")
    img512 = os.path.join(ctx.workdir, "model512.bin")
    vlib.sh([exe, "example", "4096", "2", img])
    vlib.sh([exe, "example", "512", "2", img512])
    res = []
    for f, psz in ((img, 4096), (img512, 512)):
        rc, out = ctx.harness("c19", ["model", f, psz])
        res += [l for l in (out or "").split("\n") if l.startswith("model reader=")]
    cov["model_written_image_opened_by"] = [re.sub(r"result=.*expected_match", "expected_match", l) for l in res]
    if len(res) != 3 or not all(l.endswith("expected_match=true") for l in res):
        s2_ok = False
        detail = {"what": "the image assembled by the Coq model's encoders is not read correctly by a real release", "lines": res}
    cov["rule"] = ("one evaluation = one storage image written by one release (after a durable commit without clean close, after compaction, or "
                   "after clean close), read by the OTHER release with contents equal to the sorted-map spec and check_integrity Ok(true), and "
                   "also accepted+decoded by the extracted Coq reader; non-trivial as in C10 (multi-level trees, subtrees, multi-region, savepoints...)")
    cov["traces_validated_against_impl"] = cov["evaluations"]
    cov["trusted_base"] = ["Coq 8.16.1 kernel + vm_compute", "tools/gen_consts.py", "harness/src/bin/c19.rs + c10_util.rs",
                           "extraction + ocaml/fmt_driver.ml", "redb 3.0.0 from the local cargo registry built with debug assertions off (release-like)",
                           "'redb 3.0.0 is a v3 reader in the sense of the model' is validated by these runs, not proved"]
    return ctx.finish("proof", cov,
                      assumptions=["redb 3.0.0 can only use 4096-byte pages: forward-direction files use page size 4096 with small regions",
                                   "3.0.0's check_integrity()=Ok(false) on images taken right after compact() is not counted (it does the same on its own files)"],
                      s2_ok=s2_ok, s2_detail=detail)
