"""C02 -- A read transaction sees one frozen snapshot (DESIGN.md section 5, C02; as built: design.d/C02.md).

S1  Coq: Props/C02.v (pinned_pages_immutable over every history of the abstract version store Conc/Versions.v;
    reader pin <= root and one-publication snapshot over every schedule of the C03 step model)
S2  the theorem's conclusion evaluated on the implementation (H3 hooks): every page reachable from a live
    reader's own root is still allocated and holds the same bytes after every later step; begin_read emits
    the pause points the step model lists
S3  oracle: every live reader (plain, and owned guards/ranges kept after the handle is dropped) re-runs its
    whole query set after EVERY later commit / abort / restore / compaction attempt and must equal the
    sorted-map snapshot recorded at its begin_read
"""
import json
import os
import re

from props import cache_common

BIN = "c02"


def parse(out):
    m = re.search(r"histories=(\d+) splits=(\d+) distinct_nontrivial=(\d+) queries=(\d+) violations=(\d+) markers=(\{.*?\})", out or "")
    if not m:
        return None
    d = {"histories": int(m.group(1)), "splits": int(m.group(2)), "distinct_nontrivial": int(m.group(3)),
         "queries": int(m.group(4)), "violations": int(m.group(5))}
    d["markers"] = {a: int(b) for a, b in re.findall(r'"([^"]+)": (\d+)', m.group(6))}
    return d


def lines(ctx, name):
    p = os.path.join(ctx.workdir, name)
    return [l for l in open(p).read().split("\n") if l] if os.path.exists(p) else []


def collect(ctx, nh, steps, tag):
    hist = lines(ctx, "hist.txt")
    by = {l.split("|")[0]: l for l in hist if not l.startswith("S|")}
    n = 0
    for l in lines(ctx, "oracle.txt"):
        f = l.split("|", 2)
        if f[0] != "V":
            continue
        n += 1
        key, what = f[1], f[2]
        m = re.match(r"history (\d+):", what)
        rp = {"what": what, "search": tag,
              "how_to_replay": "harness bin c02:  VERIF_SEED=%d c02 %d %d %s   (4th argument = run only that history; omit it for the begin_read-split scenarios)"
                               % (ctx.seed, nh, steps, m.group(1) if m else "")}
        if m:
            rp["history"] = by.get(m.group(1), "")[:4000]
            rp["args"] = [nh, steps, int(m.group(1))]
        else:
            rp["args"] = [nh, steps]
        ctx.violation(key, what, rp)
    return hist, n


def run(ctx):
    # VERIF_SKIP_S1=1 is for mutation campaigns only (the Coq side does not depend on the redb checkout)
    s1 = ctx.proof_obligations() if os.environ.get("VERIF_SKIP_S1") != "1" else {"ok": True, "theorems": [], "examples": [], "failed": [], "axioms": {}}
    cov = {"evaluations": 0, "distinct_nontrivial": 0}
    s2_ok, detail, searched = True, None, None
    if getattr(ctx, "replay", None):
        rp = json.load(open(ctx.replay))
        if "cache_args" in rp:      # a cache-layer violation (props/cache_common.py)
            ctx.seed = int(rp.get("seed", ctx.seed))
            cov.update(cache_common.replay_cache(ctx, "c02-", rp))
            cov["rule"] = "replay"
            return ctx.finish("proof", cov)
        rc, out = ctx.harness(BIN, rp["args"], timeout=900)
        print((out or "")[-800:])
        print("\n".join(lines(ctx, "oracle.txt"))[:4000])
        collect(ctx, rp["args"][0], rp["args"][1], "replay")
        cov["rule"] = "replay"
        return ctx.finish("proof", cov)
    nh, steps = (300, 30) if ctx.quick else (10000, 40)
    rc, out = ctx.harness(BIN, [nh, steps], timeout=2400)
    st = parse(out)
    if rc != 0 or st is None:
        s2_ok, detail = False, "harness failed rc=%s: %s" % (rc, (out or "")[-1500:])
    else:
        hist, nv = collect(ctx, nh, steps, "sweep")
        cov["evaluations"] = st["histories"] + st["splits"]
        cov["distinct_nontrivial"] = st["distinct_nontrivial"]
        cov["reader_queries_checked"] = st["queries"]
        cov["path_markers"] = st["markers"]
        cov["traces_validated_against_impl"] = st["histories"] + st["splits"]
        cov["samples"] = [h[:700] for h in hist[:2] + hist[-1:]]
        if any(k == "c02-pause-sequence" for k, *_ in ctx.violations):
            s2_ok, detail = False, "begin_read no longer emits T.register_read, M.get_data_root"
    # cache layer (part (b) of the design): model Storage/Cache.v <-> PagedCachedFile, plain-array oracle
    c_ok, c_detail, c_cov, c_searched = cache_common.check_cache(ctx, "c02-", "coherence", 120 if ctx.quick else 1500)
    cov.update(c_cov)
    cov["evaluations"] += c_cov.get("cache_programs", 0)
    cov["distinct_nontrivial"] += c_cov.get("cache_distinct_nontrivial", 0)
    cov["traces_validated_against_impl"] = cov.get("traces_validated_against_impl", 0) + c_cov.get("cache_programs", 0)
    if (not s2_ok or not s1["ok"]) and not ctx.violations and st is not None:
        rc2, out2 = ctx.harness(BIN, [nh * 8, steps + 10], timeout=2400)
        st2 = parse(out2)
        searched = "directed search: %d longer histories, violations: %s" % (nh * 8, st2["violations"] if st2 else "harness failed")
        if st2:
            collect(ctx, nh * 8, steps + 10, "directed")
    if not c_ok:
        s2_ok = False
        detail = ((str(detail) + " | ") if detail else "") + "cache layer: " + str(c_detail)
        searched = ((searched + " | ") if searched else "") + (c_searched or "")
    cov["rule"] = ("random histories (write transactions with inserts, range deletes, table deletion, multimap updates, "
                   "large values; commit durable / two-phase / quick-repair / non-durable, abort, drop; ephemeral savepoints and "
                   "restores; compaction attempts; growth over several regions) with up to 6 live readers, 2/5 of them owned "
                   "guards+ranges kept after the handle is dropped; cache sizes 0 / 512 B / 2 KiB / 64 MiB, pages of 512 B; plus "
                   "27 forced begin_read-split schedules. distinct_nontrivial = histories with >= 2 readers and >= 2 kinds of commit; "
                   "plus cache-layer call programs on the real PagedCachedFile vs the extracted model (cache_* keys): page sizes "
                   "8/16/512/4096, budgets 0 / 1 / 2 / 3+ / 4 / 8 pages / 1 MiB, offsets colliding in one lock stripe, "
                   "non-durable commits, Clean/None hints inside the usage protocol, every 5th with a reader running while "
                   "flush() is blocked in its first backend write; a cache program is non-trivial when it has an eviction and "
                   "a non-durable commit / Clean read served from the write buffer / best-effort writeback")
    cov["trusted_base"] = ["Coq 8.16.1 kernel + vm_compute", "abstract version store (durable COW commits only); C03 idealisation for schedules",
                           "harness/src/bin/c02.rs (sorted-map specification, query set)", "H3 hooks verif_root/verif_reach/verif_snapshot/verif_read_page (read-only)",
                           "C14 (allocator never hands out an allocated page) is a hypothesis of the model's commit",
                           "cache layer: harness/src/bin/cachecorr.rs (recording/failing/blocking backend, plain-array oracle, protocol-abiding generator), "
                           "hook redb::verif_cache (VCachedFile over the real PagedCachedFile, read-only state picture), ocaml/cache_driver.ml + extraction"]
    return ctx.finish("proof", cov,
                      assumptions=["Conc/Versions.v models durable commits, aborts, pins; non-durable reclaim and restore are validated only",
                                   "thread interleavings inside calls: through the C03 step model and the begin_read-split schedules"],
                      s2_ok=s2_ok, s2_detail=detail, searched=searched)
