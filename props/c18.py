"""C18 -- Gap cursors agree with a sorted-map cursor (DESIGN.md section 5, C18; as built: design.d/C18.md).

S1  Coq: specification cursor (zipper) lemmas + cursor_refines for the modelled gap logic (Props/C18.v)
S3  the property itself: every value returned by Cursor / CursorMut of the real crate and the table
    after close()/drop must equal what the EXTRACTED specification cursor returns on the same script.
S2  shape correspondence of the splice model: for every mutable cursor session of every (program, configuration)
    run the harness records the REAL tree before the session (Table::verif_shape) and after it; the EXTRACTED
    model (coq/Btree/ShapeCursor.v: the gap logic driving splice_insert_run / pop_leaf_entry on the shape model)
    is started from the tree before and must produce the tree after, node by node (keys, value lengths,
    separators, dirty flags, allocated and used page lengths).  A difference alone is not a violation: the
    differing program goes through the S3 oracle under every configuration, then every prefix of the differing
    session, then fresh programs from other seeds; a behavioural difference is a replayable violation, otherwise
    VIOLATION ... no-failing-input-found.
"""
import json
import os
import re
import shutil
import subprocess
import time
from concurrent.futures import ThreadPoolExecutor

import vlib

from props.c04 import blocks, case_blocks, crashed_run, run_file, shrink


def first_diff_token(a, b):
    ta, tb = a.split(" "), b.split(" ")
    j = 0
    while j < min(len(ta), len(tb)) and ta[j] == tb[j]:
        j += 1
    cut = lambda t: t if len(t) <= 160 else t[:70] + "..." + t[-70:]
    return j, " ".join(cut(t) for t in ta[max(0, j - 1):j + 2]), " ".join(cut(t) for t in tb[max(0, j - 1):j + 2])


def session_variants(lines, sidx, base_id, limit=40):
    """Programs around a differing session: the program cut after the session, with the session cut after k of its
    operations (every prefix when short, else a spread + the last ones), each followed by len + a full scan."""
    w = [i for i, l in enumerate(lines) if l.startswith("W ")]
    if sidx >= len(w):
        return []
    li = w[sidx]
    t = lines[li].split(" ")
    ops = [x for x in t[3:] if x not in ("c", "x")]
    n = len(ops)
    ks = sorted(set(list(range(1, n + 1)) if n <= limit else
                    [max(1, (n * i) // (limit - 10)) for i in range(1, limit - 9)] + list(range(n - 9, n + 1))))
    out = []
    head = lines[0].split(" ")
    for vi, k in enumerate(ks):
        for end in ("c", "x"):
            prog = [" ".join([head[0], str(base_id + 2 * vi + (end == "x"))] + head[2:])] + lines[1:li]
            prog.append(" ".join(t[:3] + ops[:k] + [end]))
            prog += ["N", "Q u u d", "K", "O"]
            out.append(prog)
    return out


def shape_stage(ctx, cov, cases):
    """S2 for the splice model.  Returns (s2_ok, detail); records violations found by the directed search."""
    t0 = time.time()
    cfgs = sorted(m.group(1) for m in (re.match(r"shapein\.(.+)\.txt$", fn) for fn in os.listdir(ctx.workdir)) if m)
    exe, msg = vlib.ocaml_driver("c18")
    if exe is None:
        return False, "model driver build failed: %s" % msg[-800:]

    def one(cfg):
        return cfg, ctx.driver("c18", "shapein.%s.txt" % cfg, "shapemodel.%s.txt" % cfg, args=["shape", "shape_markers.%s.txt" % cfg],
                               timeout=900 if ctx.quick else 6000)
    with ThreadPoolExecutor(max_workers=4) as ex:
        res = list(ex.map(one, cfgs))
    for cfg, (rc, err) in res:
        if rc != 0:
            return False, "shape model driver failed under %s rc=%s: %s" % (cfg, rc, err)
    markers = {}
    compared = 0
    per_cfg = {}
    bad = []
    for cfg in cfgs:
        try:
            for l in open(os.path.join(ctx.workdir, "shape_markers.%s.txt" % cfg)):
                k, v = l.strip().rsplit("=", 1)
                markers[k] = markers.get(k, 0) + int(v)
        except OSError:
            pass
        impl = blocks(os.path.join(ctx.workdir, "shapeimpl.%s.txt" % cfg))
        model = blocks(os.path.join(ctx.workdir, "shapemodel.%s.txt" % cfg))
        n = 0
        for pid, ls in impl.items():
            ml = model.get(pid, [])
            n += sum(1 for x in ls if x.startswith("S "))
            if ls != ml:
                for i in range(max(len(ls), len(ml))):
                    a = ls[i] if i < len(ls) else "<missing>"
                    b = ml[i] if i < len(ml) else "<missing>"
                    if a != b:
                        bad.append((pid, cfg, i, a, b))
                        break
        per_cfg[cfg] = n
        compared += n
    cov["shape_correspondence"] = {
        "sessions_compared_node_by_node": compared, "per_configuration": per_cfg, "differing_runs": len(bad),
        "path_markers (counted by the driver on the model's trees)": markers,
        "model_self_checks": "per session: tree_checkb of the result (INV!), erasure of the result == CursorSplice.t_session on the erased tree (ERASE!), "
                             "contents and outputs == the specification cursor's (SPEC!); a marker line would differ from redb's output. "
                             "All three are now theorems about the model (c18_cursor_refines_tree, c18_shape_session_erases, c18_cursor_refines_shape); "
                             "the markers remain as run-time checks of the extracted code and of the parsed start tree (INV! can only fire when the "
                             "real tree the model is started from is itself not well-formed, or extraction/glue is wrong)",
        "seconds_model": round(time.time() - t0, 1),
    }
    if not bad:
        return True, None
    # ---- a correspondence break: does redb's behaviour violate the property somewhere near?
    bad.sort(key=lambda x: sum(len(l) for l in cases[x[0]]))
    details = []
    searched = 0
    for (pid, cfg, i, a, b) in bad[:4]:
        lines = cases[pid]
        j, ta, tb = first_diff_token(a, b)
        wl = [l for l in lines if l.startswith("W ")]
        details.append({"program": pid, "header": lines[0], "configuration": cfg, "session_number": i,
                        "session": (wl[i] if i < len(wl) else "?")[:300], "first_differing_node_token": j,
                        "redb": ta[:500], "model": tb[:500]})
        progs = [lines] + session_variants(lines, i, 1000000 + 1000 * searched)
        searched += len(progs)
        flat = [l for p in progs for l in p]
        d = [x for x in run_file(ctx, flat, "shape-dsearch", "c18") if not x[2].startswith("NO RETURN")]
        if d:
            cfg2, k, x, y = d[0]
            # find the smallest variant that still differs
            small = None
            for p in sorted(progs, key=lambda p: sum(len(l) for l in p)):
                d2 = run_file(ctx, p, "final", "c18")
                if d2:
                    small, (cfg2, k, x, y) = p, d2[0]
                    break
            small = small or flat
            ctx.violation("c18-%s" % (x.split(" ")[0] if x != "<missing>" else y.split(" ")[0]),
                          "found by the directed search after a shape difference of the splice model (program %d, session %d, configuration %s): cursor output "
                          "differs from the specification cursor under configuration %s at output line %d: redb=%r spec=%r"
                          % (pid, i, cfg, cfg2, k, x[:300], y[:300]),
                          {"program": small, "config": cfg2, "line": k, "impl": x, "spec": y, "shape_difference": details[-1],
                           "how_to_replay": "./check C18 --replay <this file>"})
            break
    if not ctx.violations:
        # bigger budget: fresh programs from other seeds through the S3 oracle (same generator: long runs, long prefixes, flush crossings)
        rounds = 3 if ctx.quick else 10
        exe = vlib.cargo_bin("c18")[0]
        drv = vlib.ocaml_driver("c18")[0]
        for rnd in range(rounds):
            wd = os.path.join(ctx.workdir, "shape-extra")
            shutil.rmtree(wd, ignore_errors=True)
            os.makedirs(wd)
            env = dict(os.environ, VERIF_SEED=str(ctx.seed * 1000 + 18 + rnd), VERIF_TIER="quick")
            try:
                subprocess.run([exe, "300"], cwd=wd, env=env, stdout=subprocess.DEVNULL, stderr=subprocess.DEVNULL, timeout=600)
                with open(os.path.join(wd, "cases.txt")) as fi, open(os.path.join(wd, "model.txt"), "w") as fo:
                    subprocess.run(["bash", "-c", 'ulimit -s unlimited 2>/dev/null; exec "$0"', drv], stdin=fi, stdout=fo, stderr=subprocess.DEVNULL, timeout=600)
            except (subprocess.TimeoutExpired, OSError):
                continue
            try:
                model = blocks(os.path.join(wd, "model.txt"))
                extra = case_blocks(os.path.join(wd, "cases.txt"))
            except OSError:
                continue
            searched += len(extra)
            hit = None
            for fn in sorted(os.listdir(wd)):
                mm = re.match(r"impl\.(.+)\.txt$", fn)
                if not mm:
                    continue
                for pid, ls in blocks(os.path.join(wd, fn)).items():
                    if ls != model.get(pid, []):
                        hit = (pid, mm.group(1))
                        break
                if hit:
                    break
            if hit:
                lines = extra[hit[0]]
                small = shrink(ctx, lines, budget=30, name="c18")
                d2 = run_file(ctx, small, "final", "c18")
                if not d2:
                    small = lines
                    d2 = run_file(ctx, small, "final", "c18")
                if d2:
                    cfg2, k, x, y = d2[0]
                    ctx.violation("c18-%s" % (x.split(" ")[0] if x != "<missing>" else y.split(" ")[0]),
                                  "found by the directed search after a shape difference of the splice model: cursor output differs from the specification cursor "
                                  "under configuration %s at output line %d: redb=%r spec=%r" % (cfg2, k, x[:300], y[:300]),
                                  {"program": small, "config": cfg2, "line": k, "impl": x, "spec": y, "shape_difference": details[0],
                                   "how_to_replay": "./check C18 --replay <this file>"})
                    break
    cov["shape_correspondence"]["directed_search_programs"] = searched
    if ctx.violations:
        return True, None
    return False, {"what": "the real tree after a cursor session differs from the extracted splice model (coq/Btree/ShapeCursor.v) started from the real tree before it, "
                           "on %d of the (program, configuration) runs (%d sessions compared); the S3 oracle found no behavioural difference on the differing programs "
                           "under every configuration, on the prefixes of the differing sessions, nor on fresh programs (%d programs searched)" % (len(bad), compared, searched),
                   "first_differences": details}


def run(ctx):
    s1 = ctx.proof_obligations()
    cov = {"evaluations": 0, "distinct_nontrivial": 0}

    if getattr(ctx, "replay", None):
        obj = json.load(open(ctx.replay))
        diffs = run_file(ctx, obj["program"], "replay", "c18")
        for (cfg, i, a, b) in diffs:
            ctx.violation(obj.get("key", "c18-replay"), "replayed program still differs under %s at output line %d: impl=%r spec=%r" % (cfg, i, a[:300], b[:300]),
                          {"program": obj["program"], "config": cfg, "line": i, "impl": a, "spec": b})
        cov.update({"evaluations": 1, "distinct_nontrivial": 1 if diffs else 0, "rule": "replay of one stored program under every configuration",
                    "samples": [obj["program"][:10]], "traces_validated_against_impl": 1, "trusted_base": []})
        return ctx.finish("proof", cov, s2_ok=True)

    n = int(os.environ.get("VERIF_C18_N", "0")) or (400 if ctx.quick else 6000)
    # INSERT_FLUSH_BYTES as the sources have it now (Tie 1: coq/Gen/Consts.v is regenerated by S1)
    fb = 1 << 20
    try:
        mfb = re.search(r"Definition INSERT_FLUSH_BYTES : N := (\d+)%N", open(os.path.join(vlib.COQ, "Gen", "Consts.v")).read())
        if mfb:
            fb = int(mfb.group(1))
    except OSError:
        pass
    rc, out = ctx.harness("c18", [n, fb], timeout=900 if ctx.quick else 6000)
    if rc != 0:
        last = crashed_run(ctx.workdir) if rc is not None else None
        if last:
            pid, cfg = last
            lines = case_blocks(os.path.join(ctx.workdir, "cases.txt")).get(pid)
            small = shrink(ctx, lines, budget=6 if rc == 124 else 40, name="c18")
            d2 = run_file(ctx, small, "final", "c18")
            if not d2:
                small = lines
            obs = ("; on the shrunk program: configuration %s, output line %d: redb=%r spec=%r" % (d2[0][0], d2[0][1], d2[0][2][:200], d2[0][3][:200])) if d2 else ""
            ctx.violation("c18-hang" if rc == 124 else "c18-abort", "the crate %s (rc=%s) while running cursor program %d under configuration %s; the specification cursor returns normally "
                          "(shrunk program: %d lines)%s" % ("did not return within the time limit" if rc == 124 else "aborted the process", rc, pid, cfg, len(small), obs),
                          {"program": small, "config": cfg, "harness_tail": (out or "")[-600:], "observed_on_shrunk_program": d2[:7],
                           "how_to_replay": "./check C18 --replay <this file>"})
            cov.update({"evaluations": pid + 1, "distinct_nontrivial": 0, "rule": "run aborted by the crate; see violation",
                        "samples": [small[:8]], "traces_validated_against_impl": 0, "trusted_base": []})
            return ctx.finish("proof", cov, s2_ok=True)
        return ctx.finish("proof", cov, s2_ok=False, s2_detail="harness failed rc=%s: %s" % (rc, (out or "")[-1500:]))
    stats = {}
    samples = []
    for l in out.split("\n"):
        if l.startswith("sample="):
            samples.append(l[7:][:700])
        elif "=" in l:
            k, v = l.split("=", 1)
            stats[k] = v
    m = re.search(r"programs=(\d+) runs=(\d+) distinct_nontrivial=(\d+)", out)
    programs, runs_h, dn = int(m.group(1)), int(m.group(2)), int(m.group(3))
    rc2, err = ctx.driver("c18", "cases.txt", "model.txt", timeout=3000)
    if rc2 != 0:
        return ctx.finish("proof", cov, s2_ok=False, s2_detail="spec driver failed rc=%s: %s" % (rc2, err))
    model = blocks(os.path.join(ctx.workdir, "model.txt"))
    runs = 0
    compared = 0
    bad = []
    for fn in sorted(os.listdir(ctx.workdir)):
        mm = re.match(r"impl\.(.+)\.txt$", fn)
        if not mm:
            continue
        for pid, ls in blocks(os.path.join(ctx.workdir, fn)).items():
            runs += 1
            compared += len(ls)
            ml = model.get(pid, [])
            if ls != ml:
                for i in range(max(len(ls), len(ml))):
                    a = ls[i] if i < len(ls) else "<missing>"
                    b = ml[i] if i < len(ml) else "<missing>"
                    if a != b:
                        bad.append((pid, mm.group(1), i, a, b))
                        break
    if bad:
        cases = case_blocks(os.path.join(ctx.workdir, "cases.txt"))
        bad.sort(key=lambda x: sum(len(l) for l in cases[x[0]]))
        seen = set()
        for (pid, cfg, i, a, b) in bad:
            opk = a.split(" ")[0] if a != "<missing>" else b.split(" ")[0]
            key = "c18-%s" % opk
            if key in seen:
                continue
            seen.add(key)
            lines = cases[pid]
            small = shrink(ctx, lines, name="c18") if len(seen) <= 2 else lines
            d2 = run_file(ctx, small, "final", "c18")
            if d2:
                cfg, i, a, b = d2[0]
            else:
                small = lines
            ctx.violation(key,
                          "cursor output differs from the specification cursor under configuration %s at output line %d of the program: redb=%r spec=%r "
                          "(program of %d lines; %d (program,config) runs differ in total)" % (cfg, i, a[:400], b[:400], len(small), len(bad)),
                          {"program": small, "config": cfg, "line": i, "impl": a, "spec": b,
                           "how_to_replay": "./check C18 --replay <this file>", "format": "see ocaml/c18_driver.ml / harness/src/bin/c18.rs"})
    s2_ok, s2_detail = True, None
    if not bad:
        s2_ok, s2_detail = shape_stage(ctx, cov, case_blocks(os.path.join(ctx.workdir, "cases.txt")))
    cov["evaluations"] = runs
    cov["distinct_nontrivial"] = dn
    cov["rule"] = ("random cursor programs: table content, then sessions lower_bound_mut/upper_bound_mut + moves/peeks/inserts in both directions/removals + close or drop, "
                   "read-only cursors on the write transaction and on the committed table; each program runs at page size 512 and one more configuration; "
                   "long-prefix programs (keys sharing a prefix of page size - 40..80 bytes, in turn for every page size: separators of about a page, "
                   "2-3 children per branch page) run under the configuration their keys were sized for; "
                   "non-trivial = distinct program in which some session had both an accepted and a rejected insert, or an accepted run of >= 20 inserts")
    cov["samples"] = samples or ["(no short program this run)"]
    cov["traces_validated_against_impl"] = compared
    cov["programs"] = programs
    cov["distribution"] = stats
    cov["trusted_base"] = ["Coq 8.16.1 kernel + vm_compute", "extraction (ExtrOcamlBasic only) + ocaml/c18_driver.ml",
                           "harness/src/bin/c18.rs + c04_util.rs (generator with its own shadow key set, canonical printer)",
                           "C15 for Key::compare = value order of the oracle's key type"]
    return ctx.finish("proof", cov,
                      assumptions=["proved about the MODEL (coq/Btree/Cursor.v gap logic + CursorSplice.v tree-level splice + Mutator.delete, composed into whole "
                                   "sessions on the tree: c18_cursor_refines_tree for every TreeInv tree, bound, script and flush decision; transferred to the decorated "
                                   "shape model by the erasure theorem c18_shape_session_erases); that the crate follows the model is "
                                   "validated per run: node-by-node shape comparison after every mutable cursor session + outputs and full table scans"],
                      s2_ok=s2_ok, s2_detail=s2_detail)
