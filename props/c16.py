"""C16 -- One write transaction may be used from many threads (DESIGN.md section 5, C16; as built: design.d/C16.md).

S1  Coq: Props/C16.v (per_table_independent, no_shared_page, savepoint_tracking_consistent,
    savepoint_registration_serialized over every executable log of Conc/Shared.v)
S1b Conc/CommitGap.v + CommitGapP.v: c16_epilogue_horizon_safe (every schedule of one committer against any number of
    Savepoint droppers / readers keeps DATA_ALLOCATED within the allocated pages and frees nothing a live read or valid
    savepoint can reach), the two seeded variants refuted inside the model, c16_lock_order_acyclic
S2  every forced schedule is replayed by the extracted model: the model must accept each step (tables mutex free
    exactly when verif_tables_locked() says so), give the same call results (savepoint accepted / refused as dirty),
    the same tracking state and dirty flag (H3 snapshot) and the same per-table contents
S2b every commit-gap schedule (kinds cgap-*, cgapr-*, cgaps-*, hist-*-g*) is replayed grant by grant on the extracted
    CommitGap model started from the implementation's state (H3: tracker, DATA_FREED, DATA_ALLOCATED, allocator): the
    state must satisfy the theorem's precondition (wf_init_b), the model must stop at the same pause point after every
    grant, and end with the same published id, tracker (pins, savepoints, pending non-durable commits), DATA_FREED keys
    and DATA_ALLOCATED keys as the implementation right after the commit
S3  oracle on the implementation: per-table contents = own stream (normal + multimap), no page in two tables,
    tracking never off while a savepoint is valid, every savepoint restorable to what it captured, page
    accounting (allocated = reachable + pending-free; DATA_ALLOCATED names allocated pages only), check_integrity
"""
import json
import os
import re

BIN = "c16"


def parse(out):
    m = re.search(r"scenarios=(\d+) executed=(\d+) interleaved=(\d+) distinct_nontrivial=(\d+) steps=(\d+) violations=(\d+) refused_savepoints=(\d+) kinds=(\{.*?\}) tracking=(\{.*?\})", out or "")
    if not m:
        return None
    d = dict(zip(["scenarios", "executed", "interleaved", "distinct_nontrivial", "steps", "violations", "refused"], map(int, m.groups()[:7])))
    d["kinds"] = {a: int(b) for a, b in re.findall(r'"([^"]+)": (\d+)', m.group(8))}
    d["tracking"] = {a: int(b) for a, b in re.findall(r'"([^"]*)": (\d+)', m.group(9))}
    return d


def lines(ctx, name):
    p = os.path.join(ctx.workdir, name)
    return [l for l in open(p).read().split("\n") if l] if os.path.exists(p) else []


def collect(ctx, tag):
    cases = {l.split("|")[0]: l for l in lines(ctx, "cases.txt") + lines(ctx, "ctn_cases.txt")}
    hist = {l.split("|")[0]: l for l in lines(ctx, "history.txt")}
    for l in lines(ctx, "oracle.txt"):
        f = l.split("|", 3)
        if f[0] != "V":
            continue
        key, sid, what = f[1], f[2], f[3]
        c = cases.get(sid, "")
        ctx.violation(key, "%s [scenario %s %s]" % (what, sid, c.split("|")[1] if c else ""),
                      {"scenario": sid, "case": c[:6000], "search": tag,
                       "history_before_the_shared_transaction": hist.get(sid, "")[:20000],
                       "history_format": "id|where the older savepoint (handle 900) is taken, after how many earlier transactions read transactions are begun (they stay live until after the shared transaction ended), after how many grants of the durable commit a Savepoint is dropped on another thread, (thread, grants) of a thread that is stopped until the others finished|earlier transactions: D durable / N non-durable : table.key=value (put) table.key- (delete)",
                       "format": "id|kind|pre-existing savepoint|end (0 durable, 1 non-durable, 2 abort)|programs per thread (O open, P put, D delete, C close, S savepoint, R drop savepoint; table ids >= 100 are multimap; savepoint handles 500..899 are persistent_savepoint() calls; contention families ctn-*: M<kind>.<table>.<a>.<b> table operation (kinds 0 insert 1 remove 2 pop_first 3 pop_last 4 retain 5 get_mut 6 entry.and_modify 7 entry.or_insert 8 extract_if 9-11 multimap insert/remove/remove_all), H<kind> list_tables / list_multimap_tables / stats / failing open_table / list_persistent_savepoints, L<table> delete_table; in their logs X<table>.<effect>.<a>.<b>.<sections m=merged b=pushed under the mutex> is the measured form of the operation, flags = tables/freed_pages/system_tables mutex held, B = the granted thread blocked on a held mutex, W = it got the mutex later and ran the step)|executed log tid:label:tables-mutex-held. "
                                 "kind cgapr-sp<i>-r<js>-g<g> / hist-*: earlier whole transactions (regenerated from the seed), older savepoint taken before the i-th, read transactions begun after the js-th held live, a Savepoint dropped after g grants of the durable commit; cgaps-...-g<g>-d<d>-k<k>: the same, but the dropping thread gets d grants (entering Savepoint::drop included: 2 = stopped between its two tracker sections), then the committer k more, then the drop finishes; psp-park-n<n>-a<a>-k<k>: thread a stopped after k grants until the others finished",
                       "how_to_replay": "harness bin c16: VERIF_SEED=%d c16 %s" % (ctx.seed, sid)})
    return cases


def commit_gap_correspondence(ctx):
    """cg_cases.txt -> extracted CommitGap model (one line per variant of the unobservable own records) vs cg_impl.txt"""
    cases = {l.split("|")[0]: l for l in lines(ctx, "cg_cases.txt")}
    impl = {l.split("|", 1)[0]: l.split("|", 1)[1] for l in lines(ctx, "cg_impl.txt")}
    if not cases:
        return False, "the harness produced no commit-gap scenario", {}
    rc, err = ctx.driver(BIN, "cg_cases.txt", "cg_model.txt", args=["cg"])
    if rc != 0:
        return False, "model driver (cg) failed rc=%s: %s" % (rc, err), {}
    variants = {}
    for l in lines(ctx, "cg_model.txt"):
        f = l.split("|", 2)
        if len(f) == 3:
            variants.setdefault(f[0], []).append((f[1], f[2]))
    diffs, kinds, split = [], {}, 0
    for sid, a in impl.items():
        vs = variants.get(sid, [])
        kind = cases[sid].split("|")[1] if sid in cases else "?"
        if any(r.split("|#")[0] == a for _, r in vs):
            k = kind.split("-")[0]
            kinds[k] = kinds.get(k, 0) + 1
            g = cases[sid].rsplit("grants=", 1)[-1].split(" ")
            # the dropper was granted, then the committer, then the dropper again: a section of the commit ran inside Savepoint::drop
            t = [x.split(">")[0] for x in g]
            first1 = t.index("1") if "1" in t else None
            if first1 is not None:
                last1 = len(t) - 1 - t[::-1].index("1")
                if "0" in t[first1:last1]:
                    split += 1
        else:
            diffs.append({"scenario": sid, "kind": kind, "impl": a[:400], "model_variants": [(t, r[:400]) for t, r in vs],
                          "case": cases.get(sid, "")[:1500], "how_to_replay": "harness bin c16: VERIF_SEED=%d c16 %s" % (ctx.seed, sid)})
    cov = {"commit_gap_schedules_replayed_on_model": len(impl), "commit_gap_schedules_agreeing": len(impl) - len(diffs),
           "commit_gap_kinds": kinds, "commit_gap_schedules_with_commit_sections_inside_the_drop": split}
    if diffs:
        return False, {"n_differing_scenarios": len(diffs), "first": diffs[:3]}, cov
    return True, None, cov


def run(ctx):
    s1 = ctx.proof_obligations() if os.environ.get("VERIF_SKIP_S1") != "1" else {"ok": True, "theorems": [], "examples": [], "failed": [], "axioms": {}}
    cov = {"evaluations": 0, "distinct_nontrivial": 0}
    s2_ok, detail, searched = True, None, None
    if getattr(ctx, "replay", None):
        rp = json.load(open(ctx.replay))
        rc, out = ctx.harness(BIN, [rp["scenario"]], timeout=900)
        print((out or "")[-600:])
        print("\n".join(lines(ctx, "oracle.txt"))[:4000])
        collect(ctx, "replay")
        cov["rule"] = "replay"
        return ctx.finish("proof", cov)
    rc, out = ctx.harness(BIN, [], timeout=2400)
    st = parse(out)
    cur = os.path.join(ctx.workdir, "current.txt")
    if (rc != 0 or st is None) and os.path.exists(cur):
        collect(ctx, "sweep (aborted)")
        ctx.violation("c16-process-abort", "the process aborted (rc=%s) while running scenario %s: %s" % (rc, open(cur).read(), (out or "")[-300:].strip()),
                      {"scenario": open(cur).read().split("|")[0]})
    if rc != 0 or st is None:
        s2_ok, detail = False, "harness failed rc=%s: %s" % (rc, (out or "")[-1500:])
    else:
        cases = collect(ctx, "sweep")
        cov.update({"evaluations": st["executed"], "distinct_nontrivial": st["distinct_nontrivial"], "forced_steps": st["steps"],
                    "scenario_kinds": st["kinds"], "final_tracking_state": st["tracking"], "savepoints_refused_as_dirty": st["refused"]})
        cov["samples"] = [c[:900] for c in list(cases.values())[:1] + list(cases.values())[-1:]]
        rc2, err = ctx.driver(BIN, "cases.txt", "model.txt")
        if rc2 != 0:
            s2_ok, detail = False, "model driver failed rc=%s: %s" % (rc2, err)
        else:
            impl, model = lines(ctx, "impl.txt"), lines(ctx, "model.txt")
            diffs = []
            for i in range(max(len(impl), len(model))):
                a = impl[i] if i < len(impl) else "<missing>"
                b = model[i] if i < len(model) else "<missing>"
                # a Savepoint dropped inside the commit happens after the model's log ends
                a = re.sub(r" ?1:R\d+@commit-gap\d+=ok", "", a)
                if a != b:
                    fa, fb = a.split("|"), b.split("|")
                    diffs.append({"scenario": fa[0], "impl": [x[-300:] for x in fa[1:]], "model": [x[-300:] for x in fb[1:]]})
            cov["traces_validated_against_impl"] = len(impl) - len(diffs)
            if diffs:
                s2_ok = False
                detail = {"n_differing_scenarios": len(diffs), "first": diffs[:3]}
        # ---- S2b: the commit-gap schedules on the CommitGap model
        ok_cg, cg_detail, cg_cov = commit_gap_correspondence(ctx)
        cov.update(cg_cov)
        if not ok_cg:
            s2_ok = False
            detail = {"table_phase": detail, "commit_gap": cg_detail} if detail else {"commit_gap": cg_detail}
    cov["rule"] = ("forced schedules over the pause points of open_table's set_dirty and of ephemeral_savepoint / Savepoint::drop: "
                   "directed windows (savepoint thread stopped after k grants while another thread opens its first table, and the "
                   "reverse; with and without an older valid savepoint; ended by durable commit, non-durable commit, abort), a "
                   "Savepoint dropped in every gap of the durable commit, the same with a history before the shared transaction (a transaction that "
                   "allocates pages and one that unlinks them, the older savepoint taken before / between / after them) and read transactions "
                   "begun before / between / after them that stay live across the commit (accounting evaluated right after the commit, readers "
                   "re-read), random histories of durable and non-durable transactions with readers and savepoints, 3-4 threads calling "
                   "persistent_savepoint() with one of them stopped at every pause point until the others finished (ids distinct, listed, fresh "
                   "after a reopen, each restorable) and random schedules of 2-4 threads on distinct normal and "
                   "multimap tables. distinct_nontrivial = distinct executed logs in which another thread was granted inside a call. "
                   "Commit-gap kinds additionally: the dropping thread stopped between the two tracker sections of Savepoint::drop (and after "
                   "its second pause point) while the committer runs 1-6 more sections (cgaps-*); every commit-gap schedule is replayed on the "
                   "extracted CommitGap model from the implementation's H3 state")
    cov["trusted_base"] = ["Coq 8.16.1 kernel + vm_compute", "idealisation: mutex sections atomic, SC; a table operation is one step",
                           "harness/src/conc.rs + harness/src/bin/c16.rs", "H3/H4 hooks (verif_snapshot, verif_reach, verif_tables_locked, pause points)",
                           "extraction (ExtrOcamlBasic) + ocaml/c16_driver.ml",
                           "CommitGap.lock_chains: the lock-acquisition chains of the modelled sections, transcribed by hand from the code",
                           "CommitGap model: the committer's own DATA_FREED / DATA_ALLOCATED records are not observable before the commit (one model run per possibility)"]
    return ctx.finish("proof", cov,
                      assumptions=["interleavings inside a table operation (allocator shards, freed-page lists, striped write buffer) are not forced: no pause point there",
                                   "commit of the shared transaction against Savepoint::drop / readers: Conc/CommitGap.v (SYSTEM_FREED, system-page allocation by the commit, staged persistent-savepoint deletions outside); abort and the non-durable commit: C03's model"],
                      s2_ok=s2_ok, s2_detail=detail, searched=searched)
