"""C04 -- A table behaves as an ordered map (DESIGN.md section 5, C04; as built: design.d/C04.md).

S1  Coq: SortedMap spec lemmas, read_correct, wf_check_sound, mutator refinement (Props/C04.v)
S3  the property itself: every value returned by the real table API and the full contents after every
    transaction, under several storage configurations, must equal what the EXTRACTED SortedMap
    specification returns for the same operation log.  A difference is a replayable violation
    (the log is shrunk first).
"""
import json
import os
import re
import shutil
import subprocess

import vlib


def blocks(path):
    """program id -> list of output lines (None for a program not run under this configuration)"""
    d = {}
    cur = None
    with open(path, errors="replace") as f:
        for l in f:
            l = l.rstrip("\n")
            if l.startswith("C "):
                cur = int(l.split()[1])
                d[cur] = []
            elif l.startswith("SKIP "):
                cur = None
            elif cur is not None:
                d[cur].append(l)
    return d


def case_blocks(path):
    d = {}
    cur = None
    with open(path) as f:
        for l in f:
            l = l.rstrip("\n")
            if l.startswith("C "):
                cur = int(l.split()[1])
                d[cur] = [l]
            elif cur is not None:
                d[cur].append(l)
    return d


def crashed_run(wd):
    """(program id, config) of the last run announced in progress.txt, or None when the harness finished"""
    try:
        ls = [l.split() for l in open(os.path.join(wd, "progress.txt")).read().split("\n") if l.strip()]
    except OSError:
        return None
    if not ls or ls[-1][0] == "DONE":
        return None
    return int(ls[-1][1]), ls[-1][2]


def run_file(ctx, lines, sub, name="c04"):
    """Run one program (list of log lines) under every configuration + the model. Returns list of
    (config, index, impl_line, model_line) for the first difference per configuration."""
    wd = os.path.join(ctx.workdir, sub)
    shutil.rmtree(wd, ignore_errors=True)
    os.makedirs(wd)
    with open(os.path.join(wd, "in.txt"), "w") as f:
        f.write("\n".join(lines) + "\n")
    # build (or look up) the two executables once per check run: both helpers take global locks
    cache = ctx.__dict__.setdefault("_tools", {})
    if name not in cache:
        cache[name] = (vlib.cargo_bin(name)[0], vlib.ocaml_driver(name)[0])
    exe, drv = cache[name]
    env = dict(os.environ, VERIF_SEED=str(ctx.seed), VERIF_TIER=ctx.tier)
    try:
        pr = subprocess.run([exe, "file", "in.txt"], cwd=wd, env=env, stdout=subprocess.DEVNULL, stderr=subprocess.DEVNULL, timeout=120)
        if pr.returncode != 0:
            last = crashed_run(wd)
            return [(last[1] if last else "?", -1, "PROCESS ABORTED rc=%s (panic while unwinding / abort inside the crate)" % pr.returncode, "<the specification returns normally>")]
        with open(os.path.join(wd, "cases.txt")) as fi, open(os.path.join(wd, "model.txt"), "w") as fo:
            subprocess.run(["bash", "-c", 'ulimit -s unlimited 2>/dev/null; exec "$0"', drv], stdin=fi, stdout=fo, stderr=subprocess.DEVNULL, timeout=120)
    except subprocess.TimeoutExpired:
        last = crashed_run(wd)
        return [(last[1] if last else "?", -1, "NO RETURN within 120 s (the crate loops or blocks)", "<the specification returns>")]
    model = blocks(os.path.join(wd, "model.txt"))
    out = []
    for fn in sorted(os.listdir(wd)):
        m = re.match(r"impl\.(.+)\.txt$", fn)
        if not m:
            continue
        for pid, ls in blocks(os.path.join(wd, fn)).items():
            ml = model.get(pid, [])
            if ls != ml:
                for i in range(max(len(ls), len(ml))):
                    a = ls[i] if i < len(ls) else "<missing>"
                    b = ml[i] if i < len(ml) else "<missing>"
                    if a != b:
                        out.append((m.group(1), i, a, b))
                        break
    return out


def shrink(ctx, lines, budget=60, name="c04"):
    """Greedy delta debugging over the operation lines of one program; keeps the transaction skeleton valid."""
    def ok(ls):
        # structurally valid: every B closed by K/A, ops only inside
        depth = 0
        for l in ls[1:]:
            t = l.split(" ")[0]
            if t == "B":
                if depth:
                    return False
                depth = 1
            elif t in ("K", "A"):
                if not depth:
                    return False
                depth = 0
            elif t in ("O", "RR"):
                if depth:
                    return False
            elif not depth:
                return False
        return depth == 0
    cur = list(lines)
    tries = 0
    chunk = max(1, (len(cur) - 1) // 2)
    while chunk >= 1 and tries < budget:
        i = 1
        progressed = False
        while i < len(cur) and tries < budget:
            cand = cur[:i] + cur[i + chunk:]
            if len(cand) > 1 and ok(cand):
                tries += 1
                if run_file(ctx, cand, "shrink", name):
                    cur = cand
                    progressed = True
                    continue
            i += chunk
        if not progressed:
            chunk //= 2
    # drop empty transactions
    return cur


def run(ctx):
    import time
    t0 = time.time()
    s1 = ctx.proof_obligations()
    t1 = time.time()
    cov = {"evaluations": 0, "distinct_nontrivial": 0}
    s2_ok, detail = True, None

    if getattr(ctx, "replay", None):
        obj = json.load(open(ctx.replay))
        diffs = run_file(ctx, obj["program"], "replay")
        for (cfg, i, a, b) in diffs:
            ctx.violation(obj.get("key", "c04-replay"), "replayed program still differs under %s at output line %d: impl=%r spec=%r" % (cfg, i, a[:300], b[:300]),
                          {"program": obj["program"], "config": cfg, "line": i, "impl": a, "spec": b})
        cov.update({"evaluations": 1, "distinct_nontrivial": 1 if diffs else 0, "rule": "replay of one stored program under every configuration",
                    "samples": [obj["program"][:10]], "traces_validated_against_impl": 1, "trusted_base": []})
        return ctx.finish("proof", cov, s2_ok=True)

    n = int(os.environ.get("VERIF_C04_N", "0")) or (350 if ctx.quick else 6000)
    rc, out = ctx.harness("c04", [n], timeout=900 if ctx.quick else 6000)
    t2 = time.time()
    if rc != 0:
        last = crashed_run(ctx.workdir) if rc is not None else None
        if last:
            # the crate took the whole process down on a concrete program: that program is the failing input
            pid, cfg = last
            lines = case_blocks(os.path.join(ctx.workdir, "cases.txt")).get(pid)
            small = shrink(ctx, lines, budget=6 if rc == 124 else 40)
            d2 = run_file(ctx, small, "final")
            if not d2:
                small = lines
            obs = ("; on the shrunk program: configuration %s, output line %d: redb=%r spec=%r" % (d2[0][0], d2[0][1], d2[0][2][:200], d2[0][3][:200])) if d2 else ""
            ctx.violation("c04-hang" if rc == 124 else "c04-abort", "the crate %s while running program %d under configuration %s; "
                          % ("did not return within the time limit (rc=124: it loops or blocks)" if rc == 124 else "aborted the process (rc=%s: panic while unwinding / abort)" % rc, pid, cfg) +
                          "an ordered map returns normally on this operation log (shrunk program: %d lines)%s" % (len(small), obs),
                          {"program": small, "config": cfg, "harness_tail": (out or "")[-600:], "observed_on_shrunk_program": d2[:7],
                           "how_to_replay": "./check C04 --replay <this file>"})
            cov.update({"evaluations": pid + 1, "distinct_nontrivial": 0, "rule": "run aborted by the crate; see violation",
                        "samples": [small[:8]], "traces_validated_against_impl": 0, "trusted_base": []})
            return ctx.finish("proof", cov, s2_ok=True)
        s2_ok, detail = False, "harness failed rc=%s: %s" % (rc, (out or "")[-1500:])
        return ctx.finish("proof", cov, s2_ok=s2_ok, s2_detail=detail)
    stats = {}
    samples = []
    for l in out.split("\n"):
        if l.startswith("sample="):
            samples.append(l[7:][:600])
        elif "=" in l:
            k, v = l.split("=", 1)
            stats[k] = v
    m = re.search(r"programs=(\d+) ops=(\d+) distinct_nontrivial=(\d+)", out)
    programs, ops, dn = int(m.group(1)), int(m.group(2)), int(m.group(3))
    rc2, err = ctx.driver("c04", "cases.txt", "model.txt", timeout=3000)
    t3 = time.time()
    cov["stage_seconds"] = {"S1 coq": round(t1 - t0, 1), "harness build+run": round(t2 - t1, 1), "spec driver build+run": round(t3 - t2, 1)}
    if rc2 != 0:
        s2_ok, detail = False, "spec driver failed rc=%s: %s" % (rc2, err)
        return ctx.finish("proof", cov, s2_ok=s2_ok, s2_detail=detail)
    model = blocks(os.path.join(ctx.workdir, "model.txt"))
    cases = None
    runs = 0
    compared = 0
    bad = []
    for fn in sorted(os.listdir(ctx.workdir)):
        mm = re.match(r"impl\.(.+)\.txt$", fn)
        if not mm:
            continue
        for pid, ls in blocks(os.path.join(ctx.workdir, fn)).items():
            runs += 1
            compared += len(ls)
            ml = model.get(pid, [])
            if ls != ml:
                for i in range(max(len(ls), len(ml))):
                    a = ls[i] if i < len(ls) else "<missing>"
                    b = ml[i] if i < len(ml) else "<missing>"
                    if a != b:
                        bad.append((pid, mm.group(1), i, a, b))
                        break
    if bad:
        cases = case_blocks(os.path.join(ctx.workdir, "cases.txt"))
        # smallest programs first; shrink the first few distinct ones
        bad.sort(key=lambda x: len(cases[x[0]]))
        seen = set()
        for (pid, cfg, i, a, b) in bad:
            opk = a.split(" ")[0] if a != "<missing>" else b.split(" ")[0]
            key = "c04-%s" % opk
            if key in seen:
                continue
            seen.add(key)
            lines = cases[pid]
            small = shrink(ctx, lines) if len(seen) <= 2 else lines
            d2 = run_file(ctx, small, "final")
            if d2:
                cfg, i, a, b = d2[0]
            else:
                small = lines
            ctx.violation(key,
                          "table output differs from the sorted-map specification under configuration %s at output line %d of the program: redb=%r spec=%r (program of %d lines; %d (program,config) runs differ in total)"
                          % (cfg, i, a[:300], b[:300], len(small), len(bad)),
                          {"program": small, "config": cfg, "line": i, "impl": a, "spec": b,
                           "all_differing_configs": sorted(set(x[0] for x in d2)) if d2 else [cfg],
                           "how_to_replay": "./check C04 --replay <this file>   (runs the program under every configuration and the extracted spec)",
                           "format": "see ocaml/c04_driver.ml"})
    cov["evaluations"] = runs
    cov["distinct_nontrivial"] = dn
    cov["rule"] = ("random table programs (op kinds/shapes below) over generated key pools, each run under page size 512 plus two more "
                   "storage configurations; evaluations = (program, configuration) runs; non-trivial = distinct program during which the tree "
                   "reached height >= 2 (at least one split) in some configuration, counted by the harness via TableStats")
    cov["samples"] = samples or ["(no short program this run)"]
    cov["traces_validated_against_impl"] = compared
    cov["programs"] = programs
    cov["operations"] = ops
    cov["distribution"] = stats
    cov["trusted_base"] = ["Coq 8.16.1 kernel + vm_compute", "extraction (ExtrOcamlBasic only) + ocaml/c04_driver.ml (parsing, commit/abort bookkeeping, canonical printer)",
                           "harness/src/bin/c04.rs + c04_util.rs (generator, canonical printer, FNV digest of long values)",
                           "C15 for Key::compare = value order of the oracle's key type"]
    return ctx.finish("proof", cov,
                      assumptions=["reads on a tree satisfying BTreeInv and the modelled insert/delete/pop are proved; the remaining writers (get_mut, entry, insert_reserve, "
                                   "retain*, extract*) and the tie model<->code are validated per run against the specification",
                                   "keys compare as Inst.key_cmp (u64 numeric, &[u8]/&str bytewise)"],
                      s2_ok=s2_ok, s2_detail=detail)
