"""C04 -- A table behaves as an ordered map (DESIGN.md section 5, C04; as built: design.d/C04.md).

S1  Coq: SortedMap spec lemmas, read_correct, wf_check_sound, mutator refinement (Props/C04.v)
S2  shape correspondence: programs of the modelled writers run on the real crate (Table::verif_shape after
    EVERY operation, uncommitted pages included) and on the EXTRACTED shape model (coq/Btree/Shape.v, whose
    erasure is Mutator.v); the two trees must be equal node by node (keys, value lengths, separators, dirty
    flags, allocated and used page lengths).  A difference alone is not a violation: directed search with
    the S3 oracle around the differing programs decides (replayable violation / no-failing-input-found).
S3  the property itself: every value returned by the real table API and the full contents after every
    transaction, under several storage configurations, must equal what the EXTRACTED SortedMap
    specification returns for the same operation log.  A difference is a replayable violation
    (the log is shrunk first).
"""
import json
import os
import re
import shutil
import subprocess

import vlib


def blocks(path):
    """program id -> list of output lines (None for a program not run under this configuration)"""
    d = {}
    cur = None
    with open(path, errors="replace") as f:
        for l in f:
            l = l.rstrip("\n")
            if l.startswith("C "):
                cur = int(l.split()[1])
                d[cur] = []
            elif l.startswith("SKIP "):
                cur = None
            elif cur is not None:
                d[cur].append(l)
    return d


def case_blocks(path):
    d = {}
    cur = None
    with open(path) as f:
        for l in f:
            l = l.rstrip("\n")
            if l.startswith("C "):
                cur = int(l.split()[1])
                d[cur] = [l]
            elif cur is not None:
                d[cur].append(l)
    return d


def crashed_run(wd):
    """(program id, config) of the last run announced in progress.txt, or None when the harness finished"""
    try:
        ls = [l.split() for l in open(os.path.join(wd, "progress.txt")).read().split("\n") if l.strip()]
    except OSError:
        return None
    if not ls or ls[-1][0] == "DONE":
        return None
    return int(ls[-1][1]), ls[-1][2]


def run_file(ctx, lines, sub, name="c04"):
    """Run one program (list of log lines) under every configuration + the model. Returns list of
    (config, index, impl_line, model_line) for the first difference per configuration."""
    wd = os.path.join(ctx.workdir, sub)
    shutil.rmtree(wd, ignore_errors=True)
    os.makedirs(wd)
    with open(os.path.join(wd, "in.txt"), "w") as f:
        f.write("\n".join(lines) + "\n")
    # build (or look up) the two executables once per check run: both helpers take global locks
    cache = ctx.__dict__.setdefault("_tools", {})
    if name not in cache:
        cache[name] = (vlib.cargo_bin(name)[0], vlib.ocaml_driver(name)[0])
    exe, drv = cache[name]
    env = dict(os.environ, VERIF_SEED=str(ctx.seed), VERIF_TIER=ctx.tier)
    try:
        pr = subprocess.run([exe, "file", "in.txt"], cwd=wd, env=env, stdout=subprocess.DEVNULL, stderr=subprocess.DEVNULL, timeout=120)
        if pr.returncode != 0:
            last = crashed_run(wd)
            return [(last[1] if last else "?", -1, "PROCESS ABORTED rc=%s (panic while unwinding / abort inside the crate)" % pr.returncode, "<the specification returns normally>")]
        with open(os.path.join(wd, "cases.txt")) as fi, open(os.path.join(wd, "model.txt"), "w") as fo:
            subprocess.run(["bash", "-c", 'ulimit -s unlimited 2>/dev/null; exec "$0"', drv], stdin=fi, stdout=fo, stderr=subprocess.DEVNULL, timeout=120)
    except subprocess.TimeoutExpired:
        last = crashed_run(wd)
        return [(last[1] if last else "?", -1, "NO RETURN within 120 s (the crate loops or blocks)", "<the specification returns>")]
    model = blocks(os.path.join(wd, "model.txt"))
    out = []
    for fn in sorted(os.listdir(wd)):
        m = re.match(r"impl\.(.+)\.txt$", fn)
        if not m:
            continue
        for pid, ls in blocks(os.path.join(wd, fn)).items():
            ml = model.get(pid, [])
            if ls != ml:
                for i in range(max(len(ls), len(ml))):
                    a = ls[i] if i < len(ls) else "<missing>"
                    b = ml[i] if i < len(ml) else "<missing>"
                    if a != b:
                        out.append((m.group(1), i, a, b))
                        break
    return out


def shrink(ctx, lines, budget=60, name="c04"):
    """Greedy delta debugging over the operation lines of one program; keeps the transaction skeleton valid."""
    def ok(ls):
        # structurally valid: every B closed by K/A, ops only inside
        depth = 0
        for l in ls[1:]:
            t = l.split(" ")[0]
            if t == "B":
                if depth:
                    return False
                depth = 1
            elif t in ("K", "A"):
                if not depth:
                    return False
                depth = 0
            elif t in ("O", "RR"):
                if depth:
                    return False
            elif not depth:
                return False
        return depth == 0
    cur = list(lines)
    tries = 0
    chunk = max(1, (len(cur) - 1) // 2)
    while chunk >= 1 and tries < budget:
        i = 1
        progressed = False
        while i < len(cur) and tries < budget:
            cand = cur[:i] + cur[i + chunk:]
            if len(cand) > 1 and ok(cand):
                tries += 1
                if run_file(ctx, cand, "shrink", name):
                    cur = cand
                    progressed = True
                    continue
            i += chunk
        if not progressed:
            chunk //= 2
    # drop empty transactions
    return cur


# ------------------------------------------------------------------------------------------------ S2: shape correspondence

MUTATING = ("I", "R", "M", "EO", "EM", "EI", "ER", "EE", "D", "PF", "PL", "T", "U", "X")


def observed(lines):
    """The program with the map observed after every mutating operation (len + full scan, alternating
    direction): what the directed search feeds to the S3 oracle."""
    out = []
    flip = False
    for l in lines:
        t = l.split(" ")[0]
        if t == "C":
            out.append(" ".join(l.split(" ")[:4]))
            continue
        out.append(l)
        if t in MUTATING:
            flip = not flip
            out.append("N")
            out.append("Q u u " + ("d" if flip else "D"))
    return out


def shape_verbose(ctx, lines, sub):
    """Re-run one shape program verbosely on both sides; returns (index, impl_line, model_line) of the first
    differing output line, or None."""
    wd = os.path.join(ctx.workdir, sub)
    shutil.rmtree(wd, ignore_errors=True)
    os.makedirs(wd)
    with open(os.path.join(wd, "in.txt"), "w") as f:
        f.write("\n".join(lines) + "\n")
    exe, drv = vlib.cargo_bin("c04")[0], vlib.ocaml_driver("c04")[0]
    env = dict(os.environ, VERIF_SEED=str(ctx.seed), VERIF_TIER=ctx.tier)
    try:
        subprocess.run([exe, "shapefile", "in.txt"], cwd=wd, env=env, stdout=subprocess.DEVNULL, stderr=subprocess.DEVNULL, timeout=300)
        with open(os.path.join(wd, "shape_cases.txt")) as fi, open(os.path.join(wd, "shape_model.txt"), "w") as fo:
            subprocess.run(["bash", "-c", 'ulimit -s unlimited 2>/dev/null; exec "$0" shape verbose', drv], stdin=fi, stdout=fo, stderr=subprocess.DEVNULL, cwd=wd, timeout=300)
    except (subprocess.TimeoutExpired, OSError):
        return None
    a = open(os.path.join(wd, "shape_impl.txt"), errors="replace").read().split("\n")
    b = open(os.path.join(wd, "shape_model.txt"), errors="replace").read().split("\n")
    for i in range(max(len(a), len(b))):
        x = a[i] if i < len(a) else "<missing>"
        y = b[i] if i < len(b) else "<missing>"
        if x != y:
            return i, x, y
    return None


def op_of_output_line(lines, idx):
    """The program line that produced output line `idx` of a shape run (C, then per transaction B + shape,
    per operation result + shape, K/A)."""
    o = 0
    for l in lines:
        t = l.split(" ")[0]
        n = 1 if t in ("C", "K", "A") else (0 if t == "O" else 2)
        if o <= idx < o + n:
            return l
        o += n
    return "<end>"


def shape_stage(ctx, cov):
    """Returns (s2_ok, detail). Records violations found by the directed search."""
    import time
    t0 = time.time()
    n = int(os.environ.get("VERIF_C04_SHAPE_N", "0")) or (60 if ctx.quick else 800)
    level = int(os.environ.get("VERIF_C04_SHAPE_LEVEL", "4"))
    rc, out = ctx.harness("c04", ["shape", n, level], timeout=600 if ctx.quick else 6000)
    if rc != 0:
        # the crate took the process down while a shape program ran: hand that program to the S3 oracle
        last = None
        try:
            ls = [l.split() for l in open(os.path.join(ctx.workdir, "shape_progress.txt")).read().split("\n") if l.strip()]
            if ls and ls[-1][0] == "RUN":
                last = int(ls[-1][1])
        except OSError:
            pass
        if last is not None:
            lines = case_blocks(os.path.join(ctx.workdir, "shape_cases.txt")).get(last)
            d = run_file(ctx, observed(lines), "shape-abort") if lines else []
            if d:
                ctx.violation("c04-shape-abort", "the crate aborted / did not return while running shape program %d; under the S3 oracle the same program gives: "
                              "configuration %s, output line %d: redb=%r spec=%r" % (last, d[0][0], d[0][1], d[0][2][:200], d[0][3][:200]),
                              {"program": observed(lines), "how_to_replay": "./check C04 --replay <this file>"})
                return True, None
        return False, "shape harness failed rc=%s: %s" % (rc, (out or "")[-1200:])
    stats = {}
    for l in (out or "").split("\n"):
        if "=" in l:
            k, v = l.split("=", 1)
            stats[k] = v
    t1 = time.time()
    rc2, err = ctx.driver("c04", "shape_cases.txt", "shape_model.txt", args=["shape"], timeout=3000)
    t2 = time.time()
    if rc2 != 0:
        return False, "shape model driver failed rc=%s: %s" % (rc2, err)
    impl = blocks(os.path.join(ctx.workdir, "shape_impl.txt"))
    model = blocks(os.path.join(ctx.workdir, "shape_model.txt"))
    markers = {}
    try:
        for l in open(os.path.join(ctx.workdir, "shape_markers.txt")):
            k, v = l.strip().rsplit("=", 1)
            markers[k] = int(v)
    except OSError:
        pass
    compared = 0
    bad = []
    for pid, ls in impl.items():
        ml = model.get(pid, [])
        compared += sum(1 for x in ls if x.startswith("S "))
        if ls != ml:
            for i in range(max(len(ls), len(ml))):
                a = ls[i] if i < len(ls) else "<missing>"
                b = ml[i] if i < len(ml) else "<missing>"
                if a != b:
                    bad.append((pid, i, a, b))
                    break
    m = re.search(r"shape_programs=(\d+) shape_ops=(\d+)", out or "")
    cov["shape_correspondence"] = {
        "programs": int(m.group(1)) if m else 0, "operations": int(m.group(2)) if m else 0,
        "trees_compared_node_by_node": compared, "differing_programs": len(bad),
        "path_markers_hit (counted by the extracted model on the programs whose trees agree with redb's)": markers,
        "distribution": stats, "op_level": level,
        "seconds": {"harness": round(t1 - t0, 1), "model": round(t2 - t1, 1)},
        "model_self_checks": "erasure(Shape.v result) == Mutator.v result and tree_checkb after every operation (marker lines ERASE!/INV! would differ from redb's output)",
    }
    if not bad:
        return True, None
    # ---- a correspondence break.  Decide per differing program whether redb's behaviour violates the property.
    cases = case_blocks(os.path.join(ctx.workdir, "shape_cases.txt"))
    bad.sort(key=lambda x: len(cases[x[0]]))
    details = []
    searched = 0
    for (pid, i, a, b) in bad[:6]:
        lines = cases[pid]
        v = shape_verbose(ctx, lines, "shape-verbose")
        opl = op_of_output_line(lines, i)
        details.append({"program": pid, "header": lines[0], "output_line": i, "operation": opl[:200],
                        "redb": (v[1] if v else a)[:700], "model": (v[2] if v else b)[:700]})
        searched += 1
        d = [x for x in run_file(ctx, observed(lines), "shape-dsearch") if not x[2].startswith("NO RETURN")]
        if d:
            cfg, j, x, y = d[0]
            small = shrink(ctx, observed(lines), budget=40)
            d2 = run_file(ctx, small, "final")
            if d2:
                cfg, j, x, y = d2[0]
            else:
                small = observed(lines)
            ctx.violation("c04-%s" % (x.split(" ")[0] if x != "<missing>" else y.split(" ")[0]),
                          "found by the directed search after a shape difference (program %d, operation %r): table output differs from the sorted-map "
                          "specification under configuration %s at output line %d: redb=%r spec=%r" % (pid, opl[:80], cfg, j, x[:300], y[:300]),
                          {"program": small, "config": cfg, "line": j, "impl": x, "spec": y, "shape_difference": details[-1],
                           "how_to_replay": "./check C04 --replay <this file>"})
    if not ctx.violations:
        # bigger budget around the difference: fresh shape programs (other seeds), observed after every operation, through the S3 oracle
        rounds = 3 if ctx.quick else 12
        exe = vlib.cargo_bin("c04")[0]
        for rnd in range(rounds):
            wd = os.path.join(ctx.workdir, "shape-extra")
            shutil.rmtree(wd, ignore_errors=True)
            os.makedirs(wd)
            env = dict(os.environ, VERIF_SEED=str(ctx.seed * 1000 + 17 + rnd), VERIF_TIER=ctx.tier)
            try:
                subprocess.run([exe, "shape", "24", str(level)], cwd=wd, env=env, stdout=subprocess.DEVNULL, stderr=subprocess.DEVNULL, timeout=300)
            except subprocess.TimeoutExpired:
                continue
            extra = case_blocks(os.path.join(wd, "shape_cases.txt"))
            allp = []
            for pid in sorted(extra):
                allp.extend(observed(extra[pid]))
            searched += len(extra)
            d = [x for x in run_file(ctx, allp, "shape-dsearch") if not x[2].startswith("NO RETURN")]
            if d:
                cfg, j, x, y = d[0]
                # find the program
                ctx.violation("c04-%s" % (x.split(" ")[0] if x != "<missing>" else y.split(" ")[0]),
                              "found by the directed search after a shape difference: table output differs from the sorted-map specification under "
                              "configuration %s: redb=%r spec=%r" % (cfg, x[:300], y[:300]),
                              {"program": allp, "config": cfg, "line": j, "impl": x, "spec": y, "shape_difference": details[0],
                               "how_to_replay": "./check C04 --replay <this file>"})
                break
    cov["shape_correspondence"]["directed_search_programs"] = searched
    if ctx.violations:
        return True, None
    return False, {"what": "the real tree differs from the shape model (coq/Btree/Shape.v) on %d of %d programs; the S3 oracle found no behavioural difference on them "
                           "(observed after every operation, every configuration) nor on %d further programs" % (len(bad), len(impl), searched),
                   "first_differences": details}


def run(ctx):
    import time
    t0 = time.time()
    s1 = ctx.proof_obligations()
    t1 = time.time()
    cov = {"evaluations": 0, "distinct_nontrivial": 0}
    s2_ok, detail = True, None

    if getattr(ctx, "replay", None):
        obj = json.load(open(ctx.replay))
        diffs = run_file(ctx, obj["program"], "replay")
        for (cfg, i, a, b) in diffs:
            ctx.violation(obj.get("key", "c04-replay"), "replayed program still differs under %s at output line %d: impl=%r spec=%r" % (cfg, i, a[:300], b[:300]),
                          {"program": obj["program"], "config": cfg, "line": i, "impl": a, "spec": b})
        cov.update({"evaluations": 1, "distinct_nontrivial": 1 if diffs else 0, "rule": "replay of one stored program under every configuration",
                    "samples": [obj["program"][:10]], "traces_validated_against_impl": 1, "trusted_base": []})
        return ctx.finish("proof", cov, s2_ok=True)

    n = int(os.environ.get("VERIF_C04_N", "0")) or (350 if ctx.quick else 6000)
    rc, out = ctx.harness("c04", [n], timeout=900 if ctx.quick else 6000)
    t2 = time.time()
    if rc != 0:
        last = crashed_run(ctx.workdir) if rc is not None else None
        if last:
            # the crate took the whole process down on a concrete program: that program is the failing input
            pid, cfg = last
            lines = case_blocks(os.path.join(ctx.workdir, "cases.txt")).get(pid)
            small = shrink(ctx, lines, budget=6 if rc == 124 else 40)
            d2 = run_file(ctx, small, "final")
            if not d2:
                small = lines
            obs = ("; on the shrunk program: configuration %s, output line %d: redb=%r spec=%r" % (d2[0][0], d2[0][1], d2[0][2][:200], d2[0][3][:200])) if d2 else ""
            ctx.violation("c04-hang" if rc == 124 else "c04-abort", "the crate %s while running program %d under configuration %s; "
                          % ("did not return within the time limit (rc=124: it loops or blocks)" if rc == 124 else "aborted the process (rc=%s: panic while unwinding / abort)" % rc, pid, cfg) +
                          "an ordered map returns normally on this operation log (shrunk program: %d lines)%s" % (len(small), obs),
                          {"program": small, "config": cfg, "harness_tail": (out or "")[-600:], "observed_on_shrunk_program": d2[:7],
                           "how_to_replay": "./check C04 --replay <this file>"})
            cov.update({"evaluations": pid + 1, "distinct_nontrivial": 0, "rule": "run aborted by the crate; see violation",
                        "samples": [small[:8]], "traces_validated_against_impl": 0, "trusted_base": []})
            return ctx.finish("proof", cov, s2_ok=True)
        s2_ok, detail = False, "harness failed rc=%s: %s" % (rc, (out or "")[-1500:])
        return ctx.finish("proof", cov, s2_ok=s2_ok, s2_detail=detail)
    stats = {}
    samples = []
    for l in out.split("\n"):
        if l.startswith("sample="):
            samples.append(l[7:][:600])
        elif "=" in l:
            k, v = l.split("=", 1)
            stats[k] = v
    m = re.search(r"programs=(\d+) ops=(\d+) distinct_nontrivial=(\d+)", out)
    programs, ops, dn = int(m.group(1)), int(m.group(2)), int(m.group(3))
    rc2, err = ctx.driver("c04", "cases.txt", "model.txt", timeout=3000)
    t3 = time.time()
    cov["stage_seconds"] = {"S1 coq": round(t1 - t0, 1), "harness build+run": round(t2 - t1, 1), "spec driver build+run": round(t3 - t2, 1)}
    if rc2 != 0:
        s2_ok, detail = False, "spec driver failed rc=%s: %s" % (rc2, err)
        return ctx.finish("proof", cov, s2_ok=s2_ok, s2_detail=detail)
    model = blocks(os.path.join(ctx.workdir, "model.txt"))
    cases = None
    runs = 0
    compared = 0
    bad = []
    for fn in sorted(os.listdir(ctx.workdir)):
        mm = re.match(r"impl\.(.+)\.txt$", fn)
        if not mm:
            continue
        for pid, ls in blocks(os.path.join(ctx.workdir, fn)).items():
            runs += 1
            compared += len(ls)
            ml = model.get(pid, [])
            if ls != ml:
                for i in range(max(len(ls), len(ml))):
                    a = ls[i] if i < len(ls) else "<missing>"
                    b = ml[i] if i < len(ml) else "<missing>"
                    if a != b:
                        bad.append((pid, mm.group(1), i, a, b))
                        break
    if bad:
        cases = case_blocks(os.path.join(ctx.workdir, "cases.txt"))
        # smallest programs first; shrink the first few distinct ones
        bad.sort(key=lambda x: len(cases[x[0]]))
        seen = set()
        for (pid, cfg, i, a, b) in bad:
            opk = a.split(" ")[0] if a != "<missing>" else b.split(" ")[0]
            key = "c04-%s" % opk
            if key in seen:
                continue
            seen.add(key)
            lines = cases[pid]
            small = shrink(ctx, lines) if len(seen) <= 2 else lines
            d2 = run_file(ctx, small, "final")
            if d2:
                cfg, i, a, b = d2[0]
            else:
                small = lines
            ctx.violation(key,
                          "table output differs from the sorted-map specification under configuration %s at output line %d of the program: redb=%r spec=%r (program of %d lines; %d (program,config) runs differ in total)"
                          % (cfg, i, a[:300], b[:300], len(small), len(bad)),
                          {"program": small, "config": cfg, "line": i, "impl": a, "spec": b,
                           "all_differing_configs": sorted(set(x[0] for x in d2)) if d2 else [cfg],
                           "how_to_replay": "./check C04 --replay <this file>   (runs the program under every configuration and the extracted spec)",
                           "format": "see ocaml/c04_driver.ml"})
    if not ctx.violations:
        s2_ok, detail = shape_stage(ctx, cov)
    cov["stage_seconds"]["S2 shape correspondence"] = round(time.time() - t3, 1)
    cov["evaluations"] = runs
    cov["distinct_nontrivial"] = dn
    cov["rule"] = ("random table programs (op kinds/shapes below) over generated key pools, each run under page size 512 plus two more "
                   "storage configurations; evaluations = (program, configuration) runs; non-trivial = distinct program during which the tree "
                   "reached height >= 2 (at least one split) in some configuration, counted by the harness via TableStats")
    cov["samples"] = samples or ["(no short program this run)"]
    cov["traces_validated_against_impl"] = compared
    cov["programs"] = programs
    cov["operations"] = ops
    cov["distribution"] = stats
    cov["trusted_base"] = ["Coq 8.16.1 kernel + vm_compute", "extraction (ExtrOcamlBasic only) + ocaml/c04_driver.ml (parsing, commit/abort bookkeeping, canonical printer)",
                           "harness/src/bin/c04.rs + c04_util.rs (generator, canonical printer, FNV digest of long values)",
                           "C15 for Key::compare = value order of the oracle's key type"]
    return ctx.finish("proof", cov,
                      assumptions=["proved for the logical tree model: reads, insert, delete, pops, get_mut/entry/insert_reserve, retain*, extract* consumed by ANY script of "
                                   "next()/next_back() calls (c04_extract_mixed_refines, hypothesis: the model's entry equality standing for snapshot_matches is sound); "
                                   "the tie model<->code is validated per run (S2 shape correspondence incl. the extract-sweep programs, S3 specification oracle)",
                                   "keys compare as Inst.key_cmp (u64 numeric, &[u8]/&str bytewise)"],
                      s2_ok=s2_ok, s2_detail=detail)
