"""C20 -- The storage backend is used according to its contract (DESIGN.md section 5, C20; design.d/C20.md).

S1  Coq: Props/C20.v (verified trace monitor, layout/address theorems, close hand-off).
S2  layout functions of the crate vs the extracted model (LC/LR/LB/PA lines), the harness' own monitor vs
    the extracted monitor (T lines), set_len targets / accepted lengths vs layout_from_file_len (LF lines).
S3  the extracted, verified monitor `contract_okb` decides every recorded backend trace (complete traces
    must be accepted); every sampled allocated page must be inside the model's layout and below the
    backend length (U lines); the image right after every set_len must reopen to a commit point;
    the extracted, verified timing oracle `timing_check` decides the close() counts observed after every
    API step of the close-timing scenarios and of every open (HT lines): 0 before the closing event
    (drop of the Database without a live writer / end of the writer that was live at the drop) has
    returned, 1 from then on, 1 after a failing open, no call after the close.
S2  (also) H lines: the shutdown model of coq/Storage/Shutdown.v run on the abstract events of each API step
    (with the backend's answers as inputs) must show the same close counts and the same stream of
    CheckedBackend entries (latch flags on entry) / backend calls / Close / Drop as the latch log of the crate.
"""
import json
import os
import re


def _read(ctx, name):
    p = os.path.join(ctx.workdir, name)
    if not os.path.exists(p):
        return []
    l = open(p).read().split("\n")
    while l and l[-1] == "":
        l.pop()
    return l


def _trace_excerpt(line, bad):
    toks = line.split(" ")
    head, evs = toks[:4], toks[4:]
    if bad is None:
        return {"header": " ".join(head), "events_total": len(evs), "last_events": evs[-40:]}
    lo = max(0, bad - 30)
    setlens = [(i, e) for i, e in enumerate(evs[:bad]) if e.startswith("S")][-5:]
    return {"header": " ".join(head) + "   (T id read_only len0; numbers hex)", "events_total": len(evs),
            "offending_event_index": bad, "offending_event": evs[bad] if bad < len(evs) else None,
            "last_set_len_before": setlens, "window_start": lo, "window": evs[lo:bad + 6]}


def _classify(line, bad):
    """name the kind of violation at the offending event (only used to build the violation key)"""
    toks = line.split(" ")
    ro, ln, evs = toks[2] == "1", int(toks[3], 16), toks[4:]
    if bad is None:
        return "not-closed-once"
    closed = False
    for i, e in enumerate(evs):
        k = e[0]
        if i == bad:
            if closed:
                # "call-after-close" is reserved for a READ after close (F-C20-2 in the two reader-race scenarios)
                return {"C": "second-close", "R": "call-after-close", "L": "len-after-close"}.get(k, "mutation-after-close")
            if ro and k in "WSY":
                return "read-only-mutation"
            if k in "RW":
                return "read-beyond-len" if k == "R" else "write-beyond-len"
            return "other"
        if k == "S" and e.endswith("+"):
            ln = int(e[1:-1], 16)
        if k == "C":
            closed = True
    return "other"


def evaluate(ctx, label=""):
    """one harness run + model run; returns (ran_ok, s2_diffs, cov); records S3 violations on ctx"""
    cov = {"evaluations": 0, "distinct_nontrivial": 0}
    rc, out = ctx.harness("c20", [], timeout=1500)
    if rc != 0:
        return False, ["harness failed rc=%s: %s" % (rc, (out or "")[-1500:])], cov
    rc2, err = ctx.driver("c20", "cases.txt", "model.txt", timeout=1200)
    if rc2 != 0:
        return False, ["model driver failed rc=%s: %s" % (rc2, err)], cov
    cases, impl, model, meta = (_read(ctx, f) for f in ("cases.txt", "impl.txt", "model.txt", "meta.txt"))
    if not (len(cases) == len(impl) == len(model) == len(meta)):
        return False, ["line counts differ: cases=%d impl=%d model=%d meta=%d" % (len(cases), len(impl), len(model), len(meta))], cov
    s2 = []
    kinds = {}
    samples = []
    n_traces = 0
    n_h = n_ht = ht_samples = 0
    for i, (c, a, b, m) in enumerate(zip(cases, impl, model, meta)):
        k = c.split(" ", 1)[0]
        kinds[k] = kinds.get(k, 0) + 1
        if k == "T":
            n_traces += 1
            mm = re.match(r"c=(\d) p=(\d) bad=(\S+)", b)
            if not mm:
                s2.append("line %d: unparsable model output %r" % (i + 1, b))
                continue
            complete = '"expect":"complete"' in m
            ok = (mm.group(1) == "1") if complete else (mm.group(2) == "1")
            if not ok:
                bad = None if mm.group(3) == "-" else int(mm.group(3), 16)
                scen = re.search(r'"scenario":"([^"]*)"', m)
                scen = scen.group(1) if scen else "?"
                what = ("backend contract violated in scenario %s: the verified monitor rejects the recorded trace (%s)"
                        % (scen, ("first offending call index %d" % bad) if bad is not None else
                           "no offending call, but the backend was not closed exactly once at the end"))
                viol = _classify(c, bad)
                what = viol + ": " + what
                # the key names the violated clause, the scenario and -- for opens of altered images -- whether the image
                # was cleanly closed: the recorded findings are about UNCLEAN images (repair walks pages without checking
                # them against the file length) and about files shorter than the 320-byte header; the same contract
                # breach on a cleanly closed image of full header length is a different defect and is reported
                key = "c20-%s-%s" % (viol, scen)
                nl = re.search(r'"new_len":(\d+)', m)
                if scen.startswith("open-bad-length") and nl and int(nl.group(1)) < 320:
                    key = "c20-%s-open-bad-length:short-header" % viol
                # F-C20-1 (known finding) is only: a read past len() during a FAILING open of a file that was
                # made shorter.  The same read in an open that succeeds gets its own key.
                if key.startswith("c20-read-beyond-len-open-bad-length") and '"outcome":"ok"' in m:
                    key += "-but-opened"
                # F-C20-2 (known finding) is only: a read by ANOTHER thread that began after close() returned
                if viol == "call-after-close" and '"first_call_after_close_by_closing_thread":true' in m:
                    key = key.replace("call-after-close", "closing-thread-read-after-close")
                ctx.violation(key, what,
                              {"scenario": m, "trace": _trace_excerpt(c, bad), "model_verdict": b,
                               "how_to_replay": "VERIF_SEED=%d ./check C20 --tier %s (harness/src/bin/c20.rs regenerates the scenario from the seed)" % (ctx.seed, ctx.tier)})
            if a != b:
                s2.append("line %d (T): harness monitor %r vs extracted monitor %r" % (i + 1, a, b))
            elif len(samples) < 3 and len(c) < 400:
                samples.append({"case": c, "impl_and_model": b})
        elif k == "U":
            if not re.match(r"valid=1 in=1 \S+ \S+ inb=1$", b):
                ctx.violation("c20-used-page-out-of-bounds",
                              "an allocated page is outside the layout or beyond the backend length: case %r model says %r" % (c, b),
                              {"case": c, "model": b, "impl": a, "scenario": m,
                               "format": "U backend_len nf cap hdr ps trailing region index order -> valid in start end inb"})
            if a != b:
                s2.append("line %d (U): impl %r vs model %r for %r" % (i + 1, a, b, c))
        elif k == "HT":
            n_ht += 1
            if b != "ok":
                mm = re.match(r"bad (\S+) expected=(\d+) observed=(\d+) after=(\d+)$", b)
                if mm:
                    step, exp, obs, aft = int(mm.group(1), 16), int(mm.group(2)), int(mm.group(3)), int(mm.group(4))
                    if obs < exp:
                        viol = "late-close"
                        say = ("close() had not been called when the closing event returned: %d close() call(s) seen, the "
                               "documented contract (StorageBackend::close, 'Close semantics' of Database) requires %d" % (obs, exp))
                    elif obs > exp and exp == 0:
                        viol = "early-close"
                        say = "close() was called (%d time(s)) although neither the Database was dropped without a live writer nor the deferring writer had ended" % obs
                    elif obs > exp:
                        viol = "second-close"
                        say = "close() was called %d times" % obs
                    else:
                        viol = "backend-call-after-close"
                        say = "%d backend call(s) were made after close()" % aft
                    scen = re.search(r'"scenario":"([^"]*)"', m)
                    scen = scen.group(1) if scen else "?"
                    try:
                        md = json.loads(m)
                    except Exception:
                        md = m
                    api = None
                    if isinstance(md, dict) and isinstance(md.get("steps"), list) and step < len(md["steps"]):
                        api = md["steps"][step].get("api")
                    what = "%s: scenario %s, API step %d%s: %s" % (viol, scen, step, (" (`%s`)" % api) if api else "", say)
                    fam = scen.split("/")[0].replace("close-timing:", "").replace("open-path:", "open:")
                    ctx.violation("c20-%s-%s" % (viol, fam), what,
                                  {"scenario": md, "offending_api_step": step, "offending_api": api,
                                   "close_calls_expected_after_that_step": exp, "close_calls_observed": obs,
                                   "backend_calls_after_close": aft,
                                   "observation": c.split(" ", 2)[2] if c.count(" ") >= 2 else c,
                                   "observation_format": "per API step: <abstract events>;<close() calls seen so far>;<backend calls seen after a close>",
                                   "oracle_verdict": b,
                                   "how_to_replay": "VERIF_SEED=%d ./check C20 --tier %s (harness/src/bin/c20.rs + c20_close.rs regenerate the scenario from the seed; it is single-threaded and deterministic)" % (ctx.seed, ctx.tier)})
                else:
                    s2.append("line %d (HT): the event list is not a possible history for the oracle: %r for %r" % (i + 1, b, c[:300]))
            if a != b:
                s2.append("line %d (HT): harness' own timing oracle %r vs extracted oracle %r" % (i + 1, a, b))
            elif ht_samples < 3 and '"fault":{' in m and "/rt+table" in m:
                ht_samples += 1
                steps = c.split(" ")[2:]
                samples.append({"close_timing_observation": [st if len(st) < 90 else st[:40] + "..." + st[-40:] for st in steps],
                                "format": "per API step: <events>;<close() calls so far>;<calls after close>", "oracle": b,
                                "scenario": m[:400]})
        elif k == "H":
            n_h += 1
            if a != b:
                # (if the same scenario also violates the timing oracle, the HT line that follows reports it)
                xs, ys = a.split(" "), b.split(" ")
                j = next((j for j in range(min(len(xs), len(ys))) if xs[j] != ys[j]), min(len(xs), len(ys)))
                s2.append("line %d (H): shutdown model vs crate differ at API step %d: crate %r model %r (%s)" % (
                    i + 1, j, xs[j][-160:] if j < len(xs) else "<missing>", ys[j][-160:] if j < len(ys) else "<missing>", m[:300]))
            elif len(samples) < 8 and len(c) < 300 and "close:" in c:
                samples.append({"case": c, "impl_and_model": b})
        elif k == "LF":
            if a == "?opened" and b == "none":
                s2.append("line %d (LF): an unclean file whose length has no valid layout was opened: %r (%s)" % (i + 1, c, m))
            elif a == "some" and b != "some":
                s2.append("line %d (LF): redb resized the storage to a length the model's layout_from_file_len rejects: %r (%s)" % (i + 1, c, m[:300]))
        else:
            if a != b:
                s2.append("line %d (%s): impl %r vs model %r for %r" % (i + 1, k, a, b, c))
            elif k == "LC" and len(samples) < 6:
                samples.append({"case": c, "impl_and_model": b})
    notes = []
    for a in _read(ctx, "anomalies.txt"):
        if a.startswith("VIOLATION-CANDIDATE shrink"):
            ctx.violation("c20-shrink-image", a.replace("VIOLATION-CANDIDATE shrink: ", "storage image right after a set_len is not a usable database holding a commit point: "),
                          {"detail": a, "how_to_replay": "VERIF_SEED=%d ./check C20 --tier %s" % (ctx.seed, ctx.tier)})
        elif "backend counters" in a:
            s2.append("harness inconsistency: " + a)
        else:
            notes.append(a)
    stats = "\n".join(_read(ctx, "stats.txt"))
    m = re.search(r"traces=(\d+) events=(\d+) distinct_traces=(\d+) distinct_nontrivial=(\d+)", stats)
    cov["evaluations"] = len(cases)
    cov["distinct_nontrivial"] = int(m.group(4)) if m else 0
    cov["traces_validated_against_impl"] = n_traces + n_h
    cov["shutdown_model_streams_compared"] = n_h
    cov["close_timing_observations_decided"] = n_ht
    cov["backend_calls_monitored"] = int(m.group(2)) if m else 0
    cov["case_kinds"] = kinds
    cov["distribution"] = stats
    cov["samples"] = samples
    cov["unrelated_anomalies_observed"] = notes[:20]
    return True, s2, cov


def run(ctx):
    if getattr(ctx, "replay", None):
        # a replay file names the seed and tier; the harness regenerates every scenario from them
        d = json.load(open(ctx.replay))
        ctx.seed, ctx.tier = int(d.get("seed", ctx.seed)), d.get("tier", ctx.tier)
    s1 = ctx.proof_obligations()
    if not ctx.quick and s1["ok"]:
        okc, outc = ctx.coqchk()
        if not okc:
            s1["ok"] = False
            s1["failed"].append("coqchk rejected RV.Props.C20: %s" % outc[-400:])
    ok, s2, cov = evaluate(ctx)
    searched = None
    if (not s1["ok"] or s2) and not ctx.violations:
        # directed search for a failing input: a second, bigger run with another seed
        seed0, tier0 = ctx.seed, ctx.tier
        ctx.seed, ctx.tier = seed0 * 7919 + 13, "thorough"
        ok2, s2b, cov2 = evaluate(ctx, "search")
        ctx.seed, ctx.tier = seed0, tier0
        searched = "re-ran the harness at thorough budget with seed %d: %d cases, %d violations found" % (
            seed0 * 7919 + 13, cov2.get("evaluations", 0), len(ctx.violations))
    cov["rule"] = ("one evaluation = one line decided by the extracted model (a complete backend trace, a layout function call, "
                   "a used-page bound, a close-timing observation, a shutdown-model stream); distinct_nontrivial = distinct traces "
                   "(hash of the event list) that contain a set_len or a failed backend call or come from a failing-open / "
                   "drop-order / thread scenario, plus distinct close-timing observations (hash of events + counts) with a failed "
                   "backend call, a failing close() or a reader population")
    cov["trusted_base"] = ["Coq 8.16.1 kernel + vm_compute", "tools/gen_consts.py (MAX_REGIONS)",
                           "harness/src/bin/c20.rs + harness/src/c08_util.rs (monitoring backend records every call; scenario generators)",
                           "extraction (ExtrOcamlBasic only) + ocaml/c20_driver.ml",
                           "hooks: redb::verif::layout_*/page_number_address_range, Database::verif_snapshot (H3), "
                           "Builder::verif_open_read_only_with_backend, redb::verif_c08 latch log (entries of CheckedBackend with "
                           "the latch flags), H4 pause points used as phase markers (X.db_drop.close, T.start_write, T.end_write)",
                           "harness/src/c20_close.rs: abstraction of an API step to the events of coq/Storage/Shutdown.v "
                           "(which handle kinds own an Arc<TransactionalMemory> is checked by the Drop placement on every run)"]
    assumptions = [
        "the monitoring backend sees every call redb makes on the backend object (it is the object handed to redb)",
        "API-call histories, drop orders, thread schedules and fault positions are sampled per run, not exhausted",
        "close hand-off / shutdown theorems: each tracker critical section is one atomic step (Mutex), SC memory; the "
        "close-timing scenarios are single-threaded (threads: F-C20-2 scenarios, judged by the trace monitor only)",
        "shutdown model: which storage calls a phase makes and what the backend answers are inputs (all values are covered "
        "by the theorems); panics during shutdown (crate::panicking()) are not modelled",
    ]
    return ctx.finish("proof", cov, assumptions=assumptions, s2_ok=not s2,
                      s2_detail=(s2[:8] if s2 else None), searched=searched)
