"""C17 -- The table catalog is consistent and type-safe (DESIGN.md section 5, C17; design.d/C17.md).

S1  Coq: Props/C17.v (catalog model refines the atomic map spec for every op sequence; invariant; open_type_safe;
    open_once; committed state changes only at commit; abort restores)
S3  the extracted SPEC (one map name |-> definition+contents) replays the op log of the real crate: every result
    (errors with their payload, list order, contents, lengths, read-transaction views) must be equal; the
    storage-release probe compares allocated pages before create and after delete + commits
S2  the extracted MODEL of the code replays the log too (by catalog_refines it must agree with the spec)
"""
import json
import os
import re
import time


def _read(ctx, name):
    with open(os.path.join(ctx.workdir, name), errors="replace") as f:
        return f.read().split("\n")


def _clip(s, n=500):
    return s if len(s) <= n else s[:n] + "...(%d chars)" % len(s)


def _program_of(cases, lineno):
    i = lineno - 1
    start = i
    while start > 0 and not cases[start].startswith("P "):
        start -= 1
    return [_clip(l, 300) for l in cases[start:i + 1]]


def _run_once(ctx, n, probes, tag):
    t0 = time.time()
    rc, out = ctx.harness("c17", [n, probes])
    ctx.notes.append("%s harness %.1fs" % (tag, time.time() - t0))
    crashed = None
    if rc is None:
        return False, "harness build failed: %s" % (out or "")[-1500:], None
    if rc != 0:
        # the implementation took the whole process down (abort / double panic): the logs are written line by line,
        # so compare what exists and attribute the crash to the op that was being executed
        wd = ctx.workdir
        if not os.path.exists(os.path.join(wd, "cases.txt")) or not os.path.exists(os.path.join(wd, "impl.txt")):
            return False, "harness failed rc=%s before writing logs: %s" % (rc, (out or "")[-1500:]), None
        impl = _read(ctx, "impl.txt")
        while impl and impl[-1] == "":
            impl.pop()
        cases = _read(ctx, "cases.txt")[:len(impl)]
        open(os.path.join(wd, "cases.txt"), "w").write("\n".join(cases) + "\n")
        open(os.path.join(wd, "impl.txt"), "w").write("\n".join(impl) + "\n")
        intent = [l for l in _read(ctx, "intent.txt") if l]
        crashed = {"rc": rc, "last_intent": intent[-1] if intent else None, "stderr_tail": (out or "")[-600:],
                   "ops_of_last_program": _program_of(cases, len(cases))[-60:]}
        if not os.path.exists(os.path.join(wd, "probes.txt")):
            open(os.path.join(wd, "probes.txt"), "w").write("")
    t0 = time.time()
    rc2, err = ctx.driver("c17", "cases.txt", "driver_stdout.txt", args=("spec.txt", "model.txt"))
    ctx.notes.append("%s driver %.1fs" % (tag, time.time() - t0))
    if rc2 != 0:
        return False, "model driver failed rc=%s: %s" % (rc2, err), None
    if crashed:
        ctx.violation("c17-crash", "the implementation aborted the process while executing a catalog operation (%s)" % crashed["last_intent"],
                      dict(crashed, run=tag, note="replay: run harness c17 with this seed; the op after the last logged line crashes"))
        n_lines = len(_read(ctx, "cases.txt")) - 1
        return True, None, {"programs": 0, "lines": n_lines, "nontrivial_programs": 0, "crashed": True}
    return True, None, json.load(open(os.path.join(ctx.workdir, "stats.json")))


def _judge(ctx, tag):
    """S3 + probes on the files of the last run; returns s2 diffs"""
    cases = _read(ctx, "cases.txt")
    _, s3 = ctx.diff_lines("impl.txt", "spec.txt", limit=8)
    seen_programs = set()
    for (ln, a, b) in s3:
        prog = _program_of(cases, ln)
        if prog and prog[0] in seen_programs:
            continue  # later differences in the same program are consequences of its first one
        seen_programs.add(prog[0] if prog else None)
        op = cases[ln - 1].split(" ")[0] if ln - 1 < len(cases) else "?"
        ctx.violation("c17-result-" + op,
                      "catalog op result differs from the atomic-map specification at op %r (program %s): impl=%s spec=%s"
                      % (_clip(cases[ln - 1], 200), prog[0] if prog else "?", _clip(a, 300), _clip(b, 300)),
                      {"program_header": prog[0] if prog else None, "ops_up_to_failure": prog[1:], "impl": _clip(a, 3000),
                       "spec": _clip(b, 3000), "run": tag,
                       "format": "open name kind K V | close name | put/del name key value | read name | rename kind from to | "
                                 "delete kind name | list kind | commit | abort | ropen name kind K V | ropenu name kind | rlist kind; "
                                 "names/keys/values hex; K,V = classification:hexname:legacy:width"})
    for l in _read(ctx, "probes.txt"):
        if " LEAK" in l or "PANIC" in l:
            ctx.violation("c17-delete-storage",
                          "deleting a table did not return the allocated page count to its value before the table was created: " + l,
                          {"probe": l, "run": tag,
                           "meaning": "fresh db; base tables; settle (3 commits); count A0; create+fill victim; [rename]; delete; commit; settle; count A2 must equal A0"})
    _, s2 = ctx.diff_lines("model.txt", "spec.txt", limit=5)
    return [{"line": ln, "op": _clip(cases[ln - 1], 200), "model": _clip(a, 300), "spec": _clip(b, 300)} for (ln, a, b) in s2]


# documented ambiguity of files written by redb < 4.2: the legacy spelling Internal "Option<u32>" was stored for Option<u32> AND
# for Option<user type named u32>; both still open it (baseline test legacy_colliding_user_composite_can_still_open_as_builtin)
CONFUSION_ALLOWED = {("TLegOpt", "TOptFake")}


def _confusion(ctx):
    """S3, independent of TypeName: the exhaustive matrix of ordered type pairs (A stored, B requested) written by the harness
    with hand-assigned identities; an open that succeeds although the identities differ is type confusion."""
    n = bad = 0
    for l in _read(ctx, "confusion.txt"):
        if not l.strip():
            continue
        f = [x.strip() for x in l.split("|")]
        if len(f) < 6:
            ctx.violation("c17-confusion-matrix-broken", "type-confusion matrix did not run: " + l[:300], {"line": l[:500]})
            continue
        a, aid, b, bid, k, v = f[:6]
        n += 1
        for pos, res in (("key", k), ("value", v)):
            if "PANIC" in res:
                ctx.violation("c17-open-panic", "opening a table created with %s type %s as %s panicked: %s" % (pos, aid, bid, res[:300]),
                              {"stored": a, "requested": b, "position": pos, "result": res})
            elif ("w=ok" in res or "r=ok" in res) and aid != bid and (a, b) not in CONFUSION_ALLOWED:
                bad += 1
                ctx.violation("c17-type-confusion",
                              "a table created with %s type `%s` (%s) opens with %s type `%s` (%s) instead of being refused: %s -- its bytes are reinterpreted"
                              % (pos, aid, a, pos, bid, b, res),
                              {"stored": a, "stored_identity": aid, "requested": b, "requested_identity": bid, "position": pos, "result": res,
                               "how": "harness c17 writes confusion.txt: create table with the stored type, commit, open with the requested type in a write and a read transaction"})
    if n == 0:
        ctx.violation("c17-confusion-matrix-broken", "type-confusion matrix is empty", {})
    return {"ordered_type_pairs": n, "confusions": bad}


def run(ctx):
    t0 = time.time()
    s1 = ctx.proof_obligations()
    ctx.notes.append("S1 %.1fs" % (time.time() - t0))
    n = 3000 if ctx.quick else 80000
    probes = 60 if ctx.quick else 1500
    if getattr(ctx, "replay", None):
        # a replay file records seed and tier; the run is deterministic in them
        obj = json.load(open(ctx.replay))
        ctx.seed = int(obj.get("seed", ctx.seed))
        ctx.tier = obj.get("tier", ctx.tier)
        n = 3000 if ctx.quick else 80000
        probes = 60 if ctx.quick else 1500
        print("replaying %s: seed=%d tier=%s" % (ctx.replay, ctx.seed, ctx.tier), flush=True)
    cov = {"evaluations": 0, "distinct_nontrivial": 0}
    s2_ok, s2_detail, searched = True, None, None
    ok, detail, stats = _run_once(ctx, n, probes, "main")
    if not ok:
        s2_ok, s2_detail = False, detail
    else:
        cov["evaluations"] = stats["lines"]
        cov["programs"] = stats["programs"]
        cov["distinct_nontrivial"] = stats["nontrivial_programs"]
        cov["traces_validated_against_impl"] = stats["programs"]
        cov["input_distribution"] = {k: stats[k] for k in stats if k not in ("programs", "lines", "nontrivial_programs")}
        cases, impl = _read(ctx, "cases.txt"), _read(ctx, "impl.txt")
        cov["samples"] = [{"op": _clip(cases[i], 200), "impl_and_spec_result": _clip(impl[i], 200)} for i in range(0, min(12, len(cases)))]
        cov["samples"].append({"storage_probe": _read(ctx, "probes.txt")[0]})
        vac = [l for l in _read(ctx, "probes.txt") if "VACUOUS" in l]
        cov["input_distribution"]["vacuous_probes"] = len(vac)
        cov["input_distribution"]["type_confusion_matrix"] = _confusion(ctx)
        d = _judge(ctx, "main")
        if d:
            s2_ok, s2_detail = False, {"what": "extracted model and spec disagree (contradicts catalog_refines)", "first": d}
    cov["stage_times"] = list(ctx.notes)
    cov["rule"] = ("programs = generated op sequences over 2-4 names from a pool of 6 and 20 (K,V) Rust type pairs (built-in, "
                   "composite, user types colliding with built-in names, legacy spellings, fixed-width changes), normal and multimap, "
                   "2-5 write transactions each with 4-28 ops (open / drop handle in any order / put / del / read / rename / delete / "
                   "list / read-transaction open typed+untyped+list) ending in commit or abort, followed by an untyped read-side "
                   "view of every name; evaluations = op lines compared; non-trivial = distinct program that opened a name with a "
                   "type pair different from the one it was created with, or renamed / reopened / deleted a table whose root was "
                   "staged (closed earlier in the same transaction) -- counted by the harness; storage probes counted separately")
    cov["trusted_base"] = ["Coq 8.16.1 kernel + vm_compute", "harness/src/bin/c17.rs (generator, canonical text of results and errors)",
                           "hooks TypeName::verif_new / verif_classification (guarded, add-only)",
                           "extraction (ExtrOcamlBasic only) + ocaml/c17_driver.ml",
                           "WriteTransaction::stats().allocated_pages() for the storage-release probe"]
    return ctx.finish("proof", cov,
                      assumptions=["table contents are abstracted to sorted (key bytes, value bytes) lists; B-tree pages, checksums and the free lists are C04/C06/C10 subjects",
                                   "alignment != 1 and storage errors (transaction poisoning) are in the model's checks but not reachable by the harness",
                                   "'deleting a table releases all of its storage' is validated per run by the page-count probe, not proved"],
                      s2_ok=s2_ok, s2_detail=s2_detail, searched=searched)
