"""C01 -- Commits are atomic and durable across crashes (DESIGN.md section 5 C01, design.d/C01.md).

S1  Coq: crash_window_safe / crash_trace_safe / served_step (+ lemmas) in coq/Props/C01.v.
S3  crash oracle on the real crate (harness/src/bin/c01.rs): adversarial crash images of recorded
    operation streams, of recovery runs, and of post-recovery runs must open and show exactly one
    commit point between the last acknowledged durable and the last requested one.
S2  (i) the extracted validator `window_okb` must accept every recorded sync window (the theorem's
    hypothesis holds for the real code on this history); (ii) the extracted `recover` must agree with
    the real open on sampled crash images; (iii) the extracted PROTOCOL model (Storage/Protocol.v:
    run_step / recovery_run), fed the kind of every recorded step (commit kind and durability from the
    harness; page writes, slot bytes, growth / shrink targets from the stream), must emit the operation
    stream the real crate issued: per sync window the header writes (all 320 bytes) and set_len calls in
    order and the set of page writes.  A rejected window or a differing stream is first explained by a
    concrete S3 violation of the same history; otherwise a directed search (that history alone, 10x
    budget) runs; only if that finds nothing the check ends with no-failing-input-found.
"""
import json
import os
import re


def _load(ctx, name):
    with open(os.path.join(ctx.workdir, name)) as f:
        return f.read()


def _report_violations(ctx, vs, params):
    for v in vs:
        ctx.violation(v["key"], v["what"], {
            "replay": v["replay"],
            "how_to_replay": "VERIF_SEED=<seed> VERIF_TIER=%s harness bin c01 %s only=<history>   (or ./check C01 --replay <this file>)" % (ctx.tier, " ".join(map(str, params))),
            "harness_args": params,
        })


def run(ctx):
    quick = ctx.quick
    n_hist, budget = (24, 80) if quick else (160, 200)
    replay_only = None
    if getattr(ctx, "replay", None):
        rp = json.load(open(ctx.replay))
        ctx.seed = int(rp.get("seed", ctx.seed))
        m = re.search(r"history=(\d+)", rp.get("replay", ""))
        if rp.get("harness_args"):
            n_hist, budget = rp["harness_args"][:2]
        if m:
            replay_only = int(m.group(1))
    s1 = ctx.proof_obligations()
    args = [n_hist, budget] + (["only=%d" % replay_only] if replay_only is not None else [])
    rc, out = ctx.harness("c01", args, timeout=3000)
    cov = {"evaluations": 0, "distinct_nontrivial": 0}
    s2_ok, detail = True, None
    searched = None
    if rc != 0:
        s2_ok, detail = False, "harness failed rc=%s: %s" % (rc, (out or "")[-1500:])
    else:
        stats = json.loads(_load(ctx, "stats.json"))
        vs = json.loads(_load(ctx, "violations.json"))
        _report_violations(ctx, vs, [n_hist, budget])
        cov["evaluations"] = stats["images"]
        cov["distinct_nontrivial"] = stats["distinct_nontrivial"]
        cov["input_distribution"] = {k: stats[k] for k in (
            "histories", "images", "recovery_images", "continuation_images", "windows", "protocol_segments", "recover_cases",
            "outcome_old", "outcome_new", "outcome_mid", "integrity_false", "images_by_kind", "markers", "configs")}
        cov["samples"] = stats["samples"][:5]
        hist_with_violation = set()
        for v in vs:
            m = re.search(r"history=(\d+)", v["replay"])
            if m:
                hist_with_violation.add(int(m.group(1)))
        # ---- S2 (i): validator on every recorded window
        unexplained = []          # (history, line): what the directed search has to explain
        rc2, err = ctx.driver("c01", "windows.txt", "windows_model.txt", args=["windows"])
        if rc2 != 0:
            s2_ok, detail = False, "validator driver failed rc=%s: %s" % (rc2, err)
        else:
            lines = _load(ctx, "windows_model.txt").split("\n")
            n_ok = sum(1 for l in lines if l.startswith("W ") and l.endswith(" ok"))
            rejected = [l for l in lines if l.startswith("W ") and " REJECT " in l]
            badlinks = [l for l in lines if l.startswith("L ") and " BAD " in l]
            cov["windows_accepted"] = n_ok
            cov["windows_rejected"] = len(rejected)
            for l in rejected:
                m = re.match(r"W h(\d+)", l)
                h = int(m.group(1)) if m else -1
                if h not in hist_with_violation:
                    unexplained.append((h, "validator window_okb rejects a recorded sync window: " + l))
            if badlinks:
                s2_ok, detail = False, "window summaries inconsistent with the model's next_hdr/next_len/served slot: %s" % badlinks[:3]
        # ---- S2 (iii): the extracted protocol model (Storage/Protocol.v) against the real operation stream
        if rc2 == 0:
            rc5, err5 = ctx.driver("c01", "protocol.txt", "protocol_model.txt", args=["protocol"])
            if rc5 != 0:
                s2_ok, detail = False, "protocol driver failed rc=%s: %s" % (rc5, err5)
            else:
                plines = [l for l in _load(ctx, "protocol_model.txt").split("\n") if l.startswith("S ")]
                pdiff = [l for l in plines if " DIFF " in l]
                cov["protocol_segments_compared"] = sum(1 for l in plines if l.endswith(" ok")) + len(pdiff)
                cov["protocol_segments_differ"] = len(pdiff)
                kinds = {}
                for l in plines:
                    f = l.split(" ")
                    if len(f) >= 5 and f[4] in ("ok", "DIFF"):
                        k = f[3].split("_")[0]
                        kinds[k] = kinds.get(k, 0) + 1
                cov["protocol_segments_by_kind"] = kinds
                for l in pdiff:
                    m = re.match(r"S h(\d+)", l)
                    h = int(m.group(1)) if m else -1
                    if h not in hist_with_violation:
                        unexplained.append((h, "the real operation stream differs from the one the protocol model emits for the same step: " + l[:900]))
        # ---- S2 (ii): recover model vs real open
        if s2_ok and rc2 == 0:
            rc4, err4 = ctx.driver("c01", "recover_cases.txt", "recover_model.txt", args=["recover"])
            if rc4 != 0:
                s2_ok, detail = False, "recover driver failed rc=%s: %s" % (rc4, err4)
            else:
                impl = [l for l in _load(ctx, "recover_impl.txt").split("\n") if l]
                model = [l for l in _load(ctx, "recover_model.txt").split("\n") if l]
                cases = [l for l in _load(ctx, "recover_cases.txt").split("\n") if l]
                diffs = []
                if len(impl) != len(model):
                    diffs.append(("count", len(impl), len(model)))
                for i, (a, b) in enumerate(zip(impl, model)):
                    okp = (a == b) or (a == "S*" and b in ("S0", "S1", "S*")) or (b == "S*" and a in ("S0", "S1"))
                    if not okp:
                        diffs.append((i, a, b, cases[i][:700] if i < len(cases) else ""))
                cov["recover_cases_compared"] = len(impl)
                if diffs:
                    s2_ok = False
                    detail = "Coq `recover` and the real open disagree on which slot is served (real, model, case): %s" % (diffs[:3],)
        # ---- directed search for every S2 difference that no S3 violation of the same history explains:
        # that history alone with a 10x image budget (the crash oracle on the windows around the difference)
        if unexplained:
            found = False
            searched = []
            for h in sorted(set(h for h, _ in unexplained))[:6]:
                if h < 0:
                    continue
                rc3, out3 = ctx.harness("c01", [n_hist, budget * 10, "only=%d" % h], timeout=3000)
                searched.append("history %d with budget %d: rc=%s" % (h, budget * 10, rc3))
                if rc3 == 0:
                    vs3 = json.loads(_load(ctx, "violations.json"))
                    if vs3:
                        found = True
                        _report_violations(ctx, vs3, [n_hist, budget * 10])
            if not found:
                s2_ok = False
                detail = ("S2 broken and the directed crash search found no failing image: %s" % [l for _, l in unexplained[:4]])
    cov["rule"] = ("crash images = (history, crash point, fate of every unsynced op: dropped / applied / byte ranges applied; set_len applied or not), "
                   "opened with the real crate; non-trivial = distinct image whose window has at least one pending write or set_len")
    cov["traces_validated_against_impl"] = (cov.get("windows_accepted", 0) + cov.get("recover_cases_compared", 0)
                                            + cov.get("protocol_segments_compared", 0) - cov.get("protocol_segments_differ", 0))
    cov["trusted_base"] = [
        "Coq 8.16.1 kernel + vm_compute", "tools/gen_consts.py (header offsets)", "harness/src/bin/c01.rs (generators, crash-image builder, spec of commit points)",
        "rv_harness::backend::RecBackend", "redb hook src/verif_c01.rs (redb's own walkers) + redb::verif::{xxh3_128, page_number_address_range}",
        "extraction (ExtrOcamlBasic only) + ocaml/c01_driver.ml",
        "idealisations stated as premises: tear_resistant H (H_tear), fresh_ok.fo_dead, `expect` (Merkle: a slot determines the pages its verification accepts), media model of Storage/Crash.v",
    ]
    return ctx.finish(
        "proof", cov,
        assumptions=[
            "storage: single-byte writes atomic, sync_data makes earlier writes and set_len durable, a crash keeps per byte the durable value or that of any pending covering write (docs/design.md 'Assumptions about underlying media')",
            "checksum: tear_resistant (a byte mixture of two valid slots with a valid checksum is one of them); real XXH3 collisions are out of scope",
            "histories: proved per sync window; that the real operation streams satisfy window_okb is validated on generated histories, not proved",
        ],
        s2_ok=s2_ok, s2_detail=detail, searched=searched)
