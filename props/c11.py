"""C11 -- Reopening reconstructs exactly the right allocation state (DESIGN.md section 5 C11, design.d/C11.md).

S1  coq/Props/C11.v (model coq/Reopen/Model.v, proofs coq/Reopen/ModelP.v)
S2  every image the harness opens is abstracted to the facts the open path reads (god byte flags parsed
    independently at the offsets of coq/Gen/Consts.v, slot checksums, redb's own verifier per slot,
    allocator-state table id per slot); the extracted `open` predicts path and served commit; compared
    with what the real open did (repair callback fired or not, primary transaction id afterwards).
S3  evaluated by the harness on the real crate after every open: allocated (H3 snapshot, order-0) ==
    required (reachable + pending-free, redb's walkers via H3); contents == a legitimate commit point;
    a loaded snapshot carries the opened commit's id; check_integrity() Ok(true) twice with unchanged
    contents and allocation; 10 further transactions with full-content checks.
"""
import os
import re

CONSTS = ["GOD_BYTE_OFFSET", "TRANSACTION_0_OFFSET", "TRANSACTION_1_OFFSET", "TRANSACTION_ID_OFFSET",
          "SLOT_CHECKSUM_OFFSET", "USER_ROOT_OFFSET", "SYSTEM_ROOT_OFFSET"]


def consts(ctx):
    import vlib
    txt = open(os.path.join(vlib.COQ, "Gen", "Consts.v")).read()
    out = []
    for c in CONSTS:
        m = re.search(r"Definition %s : N := (\d+)%%N\." % c, txt)
        if not m:
            raise RuntimeError("constant %s not found in Gen/Consts.v" % c)
        out.append(int(m.group(1)))
    return out


def _lines(ctx, name):
    l = open(os.path.join(ctx.workdir, name)).read().split("\n")
    while l and l[-1] == "":
        l.pop()
    return l


def _expand(tok):
    m = re.match(r"r(\d+)\.(\d+)/(\d+)$", tok)
    if not m:
        return None
    r, i, o = int(m.group(1)), int(m.group(2)), int(m.group(3))
    return [(r, (i << o) + k) for k in range(1 << o)]


def fmt_cross_check(ctx, cmd):
    """Independent `required`: b-fmt's verified decoder (coq/Format, shares no code with redb) reads the SAME
    bytes the crate opened; reachable pages + freed lists of the slot recovery trusts must equal the
    allocator state the crate ended up with (H3 snapshot written by the harness next to the image)."""
    import glob
    import subprocess
    from concurrent.futures import ThreadPoolExecutor
    import vlib
    out = {"images": 0, "compared": 0, "skipped": [], "unavailable": None}
    files = sorted(glob.glob(os.path.join(ctx.workdir, "fmtimg-*.bin")))
    out["images"] = len(files)
    if not files:
        return out
    exe, log = vlib.ocaml_driver("fmt")
    if exe is None:
        out["unavailable"] = "fmt_driver did not build: %s" % (log or "")[-300:]
        return out

    def work(f):
        b = os.path.basename(f)
        p = subprocess.run([exe, "batch"], input="pages %s recover\nsystem %s recover\n" % (b, b), cwd=ctx.workdir,
                           stdout=subprocess.PIPE, stderr=subprocess.PIPE, text=True, timeout=900)
        return f, p.returncode, p.stdout, p.stderr

    with ThreadPoolExecutor(max_workers=min(8, len(files))) as ex:
        results = list(ex.map(work, files))
    for f, rc, so, se in results:
        side = open(f[:-4] + ".alloc").read().split("\n")
        head = dict(kv.split("=", 1) for kv in side[0].split(" ") if "=" in kv)
        allocated = set(tuple(map(int, l.split("."))) for l in side[1:] if l)
        hist = os.path.basename(f).split("-")[1]
        if rc != 0:
            out["skipped"].append("%s: fmt_driver rc=%s %s" % (os.path.basename(f), rc, se[-200:]))
            continue
        chosen = re.search(r"chosen slot=\d+ txid=(\d+)", so)
        if not chosen or chosen.group(1) != head.get("served_txid"):
            out["skipped"].append("%s: decoder chose txid %s, crate served %s" % (os.path.basename(f), chosen.group(1) if chosen else None, head.get("served_txid")))
            continue
        required, dup = set(), None
        for l in so.split("\n"):
            toks = l.split(" ")
            cand = []
            if l.startswith("page ") and len(toks) > 2:
                cand = [toks[2]]
            elif l.startswith("freed "):
                cand = [t for t in toks if re.match(r"r\d+\.\d+/\d+$", t)]
            for t in cand:
                for pg in _expand(t) or []:
                    if pg in required and dup is None:
                        dup = (t, pg)
                    required.add(pg)
        out["compared"] += 1
        if required != allocated or dup:
            leak = sorted(allocated - required)[:5]
            missing = sorted(required - allocated)[:5]
            ctx.violation("c11-allocated-not-required-decoder",
                          "history %s: after %s (path %s) the allocator state differs from the pages the independent decoder finds required in the same bytes: "
                          "%d allocated vs %d required; allocated but not required %s; required but not allocated %s%s"
                          % (hist, head.get("stop"), head.get("path"), len(allocated), len(required), leak, missing,
                             "; page listed twice by the decoder: %s" % (dup,) if dup else ""),
                          {"history": int(hist), "reproduce": cmd.replace("<history>", hist), "image_file_in_workdir": os.path.basename(f),
                           "stop": head.get("stop"), "path": head.get("path")})
    return out


def _xfields(line):
    w = line.split(" ")
    return w[0], dict(kv.split("=", 1) for kv in w[2:] if "=" in kv)


def own_level_correspondence(ctx, res):
    """S2, ownership-level model (coq/Reopen/Snapshot.v, extracted xstep / open_path / closed_image / commit_flags):
    the driver carries the durable image (allocator-state table present? its id; two-phase flag; version id) and the
    needs_repair latch along the recorded history; per event its prediction is compared with what the crate's
    state shows (H3: needs_repair, header flag, durable id; allocator-state table id under the durable root; path
    taken by the open / by an open of a copy of the file right after a quick-repair commit)."""
    out = {"events": 0, "compared_fields": 0, "differences": [], "kinds": {}}
    ev = _lines(ctx, "xev.txt")
    impl = _lines(ctx, "ximpl.txt")
    if not ev:
        return out
    open(os.path.join(ctx.workdir, "xev_in.txt"), "w").write("\n".join(ev) + "\n")
    rc, err = ctx.driver("c11", "xev_in.txt", "xmodel.txt")
    if rc != 0:
        out["differences"].append({"driver": "failed rc=%s %s" % (rc, err)})
        return out
    model = _lines(ctx, "xmodel.txt")
    if not (len(ev) == len(impl) == len(model)):
        out["differences"].append({"length": "events %d, implementation lines %d, model lines %d" % (len(ev), len(impl), len(model))})
        return out
    out["events"] = len(ev)
    for e, a, b in zip(ev, impl, model):
        kind = e.split(" ")[2] if len(e.split(" ")) > 2 else "?"
        out["kinds"][kind] = out["kinds"].get(kind, 0) + 1
        ha, fa = _xfields(a)
        hb, fb = _xfields(b)
        bad = []
        if ha != hb or set(fa) != set(fb):
            bad.append("shape")
        else:
            for k in fb:
                mv, iv = fb[k], fa[k]
                if mv == "*":
                    continue
                if mv == "=":          # snapshot id known only relative to the version id: fresh
                    mv = fa.get("id")
                out["compared_fields"] += 1
                if mv != iv:
                    bad.append(k)
        if bad:
            out["differences"].append({"history": int(ha), "event": e, "fields": bad, "implementation": a, "model": b})
    return out


def analyse(ctx, n, only=None):
    res = {"ok": False, "detail": None, "s2": [], "opens": 0, "nontrivial": 0, "stats": "", "samples": []}
    rc, out = ctx.harness("c11", [n] + consts(ctx) + ([only] if only is not None else []))
    if rc != 0:
        res["detail"] = "harness failed rc=%s: %s" % (rc, (out or "")[-1500:])
        return res
    res["stats"] = out.strip()
    m = re.search(r"histories=(\d+) opens=(\d+) distinct_nontrivial=(\d+)", out)
    res["opens"], res["nontrivial"] = int(m.group(2)), int(m.group(3))
    rc2, err = ctx.driver("c11", "cases.txt", "model.txt")
    if rc2 != 0:
        res["detail"] = "model driver failed rc=%s: %s" % (rc2, err)
        return res
    cases, impl, model = _lines(ctx, "cases.txt"), _lines(ctx, "impl.txt"), _lines(ctx, "model.txt")
    res["samples"] = [{"image": c, "implementation": a, "model": b} for c, a, b in list(zip(cases, impl, model))[:4]]
    cmd = "VERIF_SEED=%d VERIF_TIER=%s harness bin c11 %d %s <history>" % (ctx.seed, ctx.tier, n, " ".join(map(str, consts(ctx))))
    for i, c in enumerate(cases):
        a = impl[i] if i < len(impl) else "<missing>"
        b = model[i] if i < len(model) else "<missing>"
        if a == b:
            continue
        h = c.split(" ")[0]
        pa, pb = re.search(r"path=(\w+)", a), re.search(r"path=(\w+)", b)
        if pa and pb and pa.group(1) == "load" and pb.group(1) == "rebuild":
            # the property's own clause: a snapshot is used only if it belongs to the commit being opened
            ctx.violation("c11-stale-snapshot-trusted",
                          "history %s: the implementation loaded the saved allocator state for image [%s] where the rule (two-phase flag, table present, table id = slot id) requires a rebuild" % (h, c),
                          {"history": int(h), "reproduce": cmd.replace("<history>", h), "image": c, "implementation": a, "model": b})
        else:
            res["s2"].append({"history": int(h), "image": c, "implementation": a, "model": b})
    for l in _lines(ctx, "viol.txt"):
        h, what = l.split("\t", 1)
        if what.startswith("KNOWN-CANDIDATE "):
            key = "c11-" + what.split(" ")[1].rstrip(":")
        else:
            w = what.split(" || ")[0]
            if "SNAPSHOT-NOT-EXACT" in w:
                key = "c11-snapshot-not-exact"
            elif "REGION-TRACKER" in w or "region tracker" in w:
                key = "c11-region-tracker-phantom"
            elif "allocated != required" in w or "owned twice" in w:
                key = "c11-allocated-not-required"
            elif "contents are not those" in w:
                key = "c11-contents"
            elif "check_integrity" in w:
                key = "c11-integrity"
            elif "trusted although" in w:
                key = "c11-stale-snapshot-trusted"
            elif "open failed" in w:
                key = "c11-open-failed"
            else:
                key = "c11-other"
        parts = what.split(" || trace: ")
        ctx.violation(key, "history %s: %s" % (h, parts[0]),
                      {"history": int(h), "reproduce": cmd.replace("<history>", h), "finding": parts[0],
                       "history_steps": parts[1].split(" ; ") if len(parts) > 1 else []})
    res["fmt"] = fmt_cross_check(ctx, cmd)
    res["own"] = own_level_correspondence(ctx, res)
    for d in res["own"]["differences"]:
        res["s2"].append(d)
    res["ok"] = True
    return res


def _replay_target(ctx):
    if not getattr(ctx, "replay", None):
        return None
    import json
    o = json.load(open(ctx.replay))
    m = re.search(r"bin c11 (\d+) .* (\d+)$", o.get("reproduce", ""))
    ctx.seed = int(o.get("seed", ctx.seed))
    return (int(m.group(1)), int(m.group(2))) if m else None


def run(ctx):
    s1 = ctx.proof_obligations()
    n = 150 if ctx.quick else 3000
    rp = _replay_target(ctx)
    r = analyse(ctx, rp[0], only=rp[1]) if rp else analyse(ctx, n)
    s2_ok, detail, searched = True, None, None
    if not r["ok"]:
        s2_ok, detail = False, r["detail"]
    elif r["s2"]:
        s2_ok, detail = False, {"open_path_differences": r["s2"][:5], "count": len(r["s2"])}
    if (not s1["ok"] or not s2_ok) and not ctx.violations and r["ok"]:
        base, tried = ctx.seed, 0
        for k in range(1, 4 if ctx.quick else 8):
            ctx.seed = base * 1000 + k
            rr = analyse(ctx, n * 2)
            tried += rr["opens"]
            if ctx.violations:
                break
        ctx.seed = base
        searched = "directed search: %d more opens over derived seeds" % tried
    cov = {
        "evaluations": r["opens"], "distinct_nontrivial": r["nontrivial"],
        "rule": "random histories of data transactions (durability None/Immediate x 1PC/2PC/quick-repair, commit/abort, persistent savepoints, abandoned "
                "transactions) interleaved with stops: clean close, crash image at an API boundary, crash image inside the op stream of a durable commit "
                "(all / none / random half / header-only / data-only / prefix / all-but-one of the unsynced writes); each stop is followed by an open and the "
                "C11 oracles; evaluations = opens; non-trivial = distinct history with at least one open that passed every oracle stage",
        "samples": r["samples"], "traces_validated_against_impl": r["opens"], "input_distribution": r["stats"],
        "independent_decoder_cross_check": r.get("fmt"),
        "ownership_level_correspondence": {k: v for k, v in (r.get("own") or {}).items() if k != "differences"},
        "trusted_base": ["Coq 8.16.1 kernel + vm_compute", "tools/gen_consts.py (header offsets handed to the harness)",
                         "harness/src/bin/c11.rs + harness/src/rvdb.rs (generators, crash-image builder, independent header parse)",
                         "extraction (ExtrOcamlBasic only) + ocaml/c11_driver.ml",
                         "H3 hooks (allocator snapshot; required pages through redb's own walkers) and verif_c01_walk (redb's own verifier) -- "
                         "a walker defect shared by rebuild and oracle is not visible here (C10/C12 decode the bytes independently)"],
    }
    return ctx.finish("proof", cov,
                      assumptions=["the model abstracts an image to god-byte flags and per-slot facts; the commit protocol producing crash images is modelled at the "
                                   "granularity header-old/new x slot bytes old/new/torn x data complete or not (torn pages are C01's subject)",
                                   "snapshot_exact / open_exact_all_histories / write_after_open_safe / integrity_clean_all_histories are proved over the page-ownership model "
                                   "(Txn/Own.v + Reopen/Snapshot.v: abstract page ids, b-tree page churn as an oracle with checked side conditions); that the crate's bookkeeping "
                                   "follows Own.v's steps is C06's correspondence; here the saved table is compared with the required pages of its commit on every quick-repair "
                                   "commit (open of a copy of the file) and on every real open, and the carried image / latch of the extracted model with the crate per event"],
                      s2_ok=s2_ok, s2_detail=detail, searched=searched)
