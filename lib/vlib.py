"""Shared machinery for every property check (see DESIGN.md section 3).

Stages:  S1 proof obligations (Coq build + Print Assumptions + forbidden-word grep)
         S2 correspondence model <-> implementation (harness bin + extracted OCaml driver)
         S3 direct oracle on implementation outputs (done by the property module)
         S4 non-vacuity examples (counted from the Props file)

A property module `props/cXX.py` defines `run(ctx)` and uses the helpers on `Ctx`.
"""
import fcntl
import hashlib
import json
import os
import re
import shutil
import subprocess
import sys
import time

ROOT = os.path.dirname(os.path.dirname(os.path.abspath(__file__)))
REPO = os.environ.get("VERIF_REPO", "/repo")
CACHE = os.path.join(ROOT, ".cache")
COQ = os.path.join(ROOT, "coq")
OCAML = os.path.join(ROOT, "ocaml")
if REPO != "/repo":
    # a run against another checkout (mutation testing) gets a private copy of the Coq tree and of the
    # extracted drivers, so that constants / functions regenerated from THAT checkout never disturb (or are
    # disturbed by) runs against /repo
    _ALT = os.path.join(CACHE, "alt-" + hashlib.sha1(REPO.encode()).hexdigest()[:10])
    os.makedirs(_ALT, exist_ok=True)
    for _d in ("coq", "ocaml"):
        subprocess.run(["rsync", "-a", "--exclude", "Makefile", "--exclude", "Makefile.conf", "--exclude", ".Makefile.d",
                        "--exclude", "_CoqProject", "--exclude", ".lia.cache", "--exclude", ".nia.cache",
                        os.path.join(ROOT, _d) + "/", os.path.join(_ALT, _d) + "/"], check=False)
    COQ = os.path.join(_ALT, "coq")
    OCAML = os.path.join(_ALT, "ocaml")
RUNCACHE = CACHE if REPO == "/repo" else _ALT   # build products that depend on the generated files
GUARD = "redb_verif"
NCPU = os.cpu_count() or 4

FORBIDDEN = re.compile(
    r"\b(Admitted|admit|Axiom|Axioms|Parameter|Parameters|Conjecture|Conjectures|Abort All|"
    r"Admit Obligations|give_up)\b|Unset Guard Checking|Unset Positivity Checking|"
    r"Unset Universe Checking|bypass_check|type-in-type|impredicative-set")
# Variable/Hypothesis are allowed only inside sections; checked separately.


def log(*a):
    print(*a, flush=True)


class Locked:
    def __init__(self, name):
        os.makedirs(CACHE, exist_ok=True)
        self.path = os.path.join(CACHE, name + ".lock")

    def __enter__(self):
        self.f = open(self.path, "w")
        fcntl.flock(self.f, fcntl.LOCK_EX)
        return self

    def __exit__(self, *a):
        fcntl.flock(self.f, fcntl.LOCK_UN)
        self.f.close()


def sh(cmd, timeout=1200, cwd=None, env=None, input=None):
    """Run a command, return (rc, stdout+stderr). rc 124 on timeout."""
    e = dict(os.environ)
    e.update({"CARGO_NET_OFFLINE": "true"})
    if env:
        e.update(env)
    try:
        p = subprocess.run(cmd, cwd=cwd, env=e, input=input, timeout=timeout, shell=isinstance(cmd, str),
                           stdout=subprocess.PIPE, stderr=subprocess.STDOUT, text=True, errors="replace")
        return p.returncode, p.stdout
    except subprocess.TimeoutExpired as ex:
        out = ex.stdout or ""
        if isinstance(out, bytes):
            out = out.decode(errors="replace")
        return 124, out + "\n[timeout after %ss]" % timeout


# ------------------------------------------------------------------ Coq

def coq_files():
    out = []
    for d, _, fs in os.walk(COQ):
        for f in fs:
            if f.endswith(".v"):
                out.append(os.path.relpath(os.path.join(d, f), COQ))
    return sorted(out)


def coq_prepare():
    """Regenerate Gen/Consts.v from the sources (Tie 1), _CoqProject and Makefile."""
    rc, out = sh([sys.executable, os.path.join(ROOT, "tools", "gen_consts.py")], env={"VERIF_REPO": REPO, "VERIF_COQ": COQ})
    if rc != 0:
        return False, "gen_consts failed:\n" + out
    # Tie 1b: small pure Rust functions translated to Gallina (coq/Gen/Fns.v); the Gen/Fns*P.v proofs
    # tie the hand-written models to them.  A function that can no longer be translated is left out of
    # Fns.v (reason in a comment there), so only the proofs that mention it stop compiling.
    rc, out = sh([sys.executable, os.path.join(ROOT, "tools", "gen_fns.py")], env={"VERIF_REPO": REPO, "VERIF_COQ": COQ})
    if rc != 0:
        return False, "gen_fns failed:\n" + out
    files = coq_files()
    proj = "-Q . RV\n-arg -w -arg -notation-overridden,-deprecated-hint-without-locality,-deprecated-instance-without-locality\n" + "\n".join(files) + "\n"
    pp = os.path.join(COQ, "_CoqProject")
    old = open(pp).read() if os.path.exists(pp) else None
    if old != proj or not os.path.exists(os.path.join(COQ, "Makefile")):
        with open(pp, "w") as f:
            f.write(proj)
        rc, out = sh(["coq_makefile", "-f", "_CoqProject", "-o", "Makefile"], cwd=COQ)
        if rc != 0:
            return False, "coq_makefile failed:\n" + out
    return True, ""


def coq_make(targets, timeout=1500, keep_going=False):
    """make the given .vo targets (paths relative to coq/). Full .vo builds only."""
    os.makedirs(os.path.join(OCAML, "gen"), exist_ok=True)
    with Locked("coq" if REPO == "/repo" else "coq-" + hashlib.sha1(REPO.encode()).hexdigest()[:10]):
        ok, msg = coq_prepare()
        if not ok:
            return False, msg
        rc, out = sh(["make", "-j%d" % NCPU] + (["-k"] if keep_going else []) + list(targets), cwd=COQ, timeout=timeout)
        return rc == 0, out


def grep_forbidden(files=None):
    """Return list of (file, lineno, text) of forbidden vernacular in the development."""
    hits = []
    for rel in (files or coq_files()):
        p = os.path.join(COQ, rel)
        try:
            txt = open(p).read()
        except OSError:
            continue
        # strip comments (non-nested approximation, then nested loop)
        prev = None
        while prev != txt:
            prev = txt
            txt = re.sub(r"\(\*(?:(?!\(\*|\*\)).)*\*\)", lambda m: "\n" * m.group(0).count("\n"), txt, flags=re.S)
        depth = 0
        for i, line in enumerate(txt.split("\n"), 1):
            if re.match(r"\s*Section\b", line):
                depth += 1
            if FORBIDDEN.search(line):
                hits.append((rel, i, line.strip()))
            if depth == 0 and re.match(r"\s*(Variable|Variables|Hypothesis|Hypotheses|Context)\b", line):
                hits.append((rel, i, "outside section: " + line.strip()))
            if re.match(r"\s*End\b", line) and depth > 0:
                # could be End of a Module; modules do not use Variable, fine
                depth -= 1
    return hits


def coq_deps(rel):
    """Transitive .v dependencies (inside coq/) of a file, via coqdep."""
    rc, out = sh(["coqdep", "-Q", ".", "RV"] + coq_files(), cwd=COQ)
    deps = {}
    for line in out.split("\n"):
        m = re.match(r"(\S+)\.vo\s.*?:\s*(.*)", line)
        if m:
            deps[m.group(1) + ".v"] = [d[:-3] + ".v" for d in m.group(2).split() if d.endswith(".vo")]
    seen = set()
    todo = [rel]
    while todo:
        x = todo.pop()
        if x in seen:
            continue
        seen.add(x)
        todo.extend(deps.get(x, []))
    return sorted(seen)


def allowlist():
    p = os.path.join(ROOT, "tools", "assumptions_allowlist.txt")
    out = set()
    if os.path.exists(p):
        for l in open(p):
            l = l.split("#")[0].strip()
            if l:
                out.add(l)
    return out


def props_theorems(pid):
    """Names of Theorem/Corollary/Lemma/Example declared in Props/<pid>.v"""
    p = os.path.join(COQ, "Props", pid + ".v")
    txt = open(p).read()
    thms = re.findall(r"^\s*(?:Theorem|Corollary|Lemma)\s+([A-Za-z_0-9']+)", txt, flags=re.M)
    examples = re.findall(r"^\s*(?:Example|Fact)\s+([A-Za-z_0-9']+)", txt, flags=re.M)
    return thms, examples


def print_assumptions(pid, names):
    """Run Print Assumptions for each name (fresh coqc run, so it is reported on every check)."""
    d = os.path.join(RUNCACHE, "pa")
    os.makedirs(d, exist_ok=True)
    f = os.path.join(d, "PA_%s_%d.v" % (pid, os.getpid()))
    with open(f, "w") as fh:
        fh.write("Require Import RV.Props.%s.\n" % pid)
        for n in names:
            fh.write('Goal True. idtac "@@BEGIN %s". Abort.\nPrint Assumptions RV.Props.%s.%s.\n' % (n, pid, n))
        fh.write('Goal True. idtac "@@END". Abort.\n')
    rc, out = sh(["coqc", "-noglob", "-Q", COQ, "RV", f], cwd=d, timeout=600)
    for ext in (".v", ".vo", ".vok", ".vos", ".glob"):
        try:
            os.remove(f[:-2] + ext)
        except OSError:
            pass
    res = {}
    if rc != 0:
        return None, out
    cur = None
    buf = []
    for line in out.split("\n"):
        m = re.match(r"@@BEGIN (\S+)", line)
        if m or line.startswith("@@END"):
            if cur is not None:
                res[cur] = "\n".join(buf).strip()
            cur = m.group(1) if m else None
            buf = []
        elif cur is not None:
            buf.append(line)
    return res, out


def axioms_of(pa_text):
    if "Closed under the global context" in pa_text:
        return []
    names = []
    for line in pa_text.split("\n"):
        m = re.match(r"^([A-Za-z_][A-Za-z_0-9.']*)\s*:", line)
        if m:
            names.append(m.group(1))
    return names or ["<unparsed: %s>" % pa_text[:80]]


# ------------------------------------------------------------------ harness (Rust) and driver (OCaml)

def harness_dir():
    """Directory of the harness crate wired to REPO; a private copy when VERIF_REPO is overridden."""
    src = os.path.join(ROOT, "harness")
    if REPO == "/repo":
        d = src
        tgt = os.path.join(CACHE, "target")
    else:
        h = hashlib.sha1(REPO.encode()).hexdigest()[:10]
        d = os.path.join(CACHE, "alt-" + h, "harness")
        tgt = os.path.join(CACHE, "alt-" + h, "target")
        os.makedirs(d, exist_ok=True)
        sh(["rsync", "-a", "--delete", "--exclude", "target", src + "/", d + "/"])
        ct = open(os.path.join(d, "Cargo.toml")).read().replace('path = "/repo"', 'path = "%s"' % REPO)
        open(os.path.join(d, "Cargo.toml"), "w").write(ct)
    lock = os.path.join(REPO, "Cargo.lock")
    return d, tgt


def cargo_bin(name, timeout=1500):
    """Build harness binary `name` against REPO's current working tree with hooks on."""
    d, tgt = harness_dir()
    env = {"RUSTFLAGS": "--cfg %s" % GUARD, "CARGO_TARGET_DIR": tgt, "CARGO_NET_OFFLINE": "true"}
    rc, out = sh(["cargo", "build", "--offline", "--bin", name], cwd=d, env=env, timeout=timeout)
    if rc != 0:
        return None, out
    return os.path.join(tgt, "debug", name), out


def ocaml_driver(name, timeout=900):
    """Extract (coq/Extract/Ex<Name>.v writes ocaml/gen/<name>_model.ml) and build ocaml/<name>_driver.ml."""
    ex = "Extract/Ex%s.vo" % name.upper()
    gen = os.path.join(OCAML, "gen")
    os.makedirs(gen, exist_ok=True)
    ml = os.path.join(gen, "%s_model.ml" % name)
    vo = os.path.join(COQ, ex)
    if not os.path.exists(ml) and os.path.exists(vo):
        os.remove(vo)
    ok, out = coq_make([ex], timeout=timeout)
    if not ok or not os.path.exists(ml):
        return None, "extraction failed:\n" + out
    bindir = os.path.join(RUNCACHE, "ocamlbin")
    os.makedirs(bindir, exist_ok=True)
    exe = os.path.join(bindir, "%s_driver" % name)
    drv = os.path.join(OCAML, "%s_driver.ml" % name)
    srcs = [ml[:-3] + ".mli", ml, drv]
    with Locked("ocaml-" + name):
        newest = max(os.path.getmtime(s) for s in srcs)
        if os.path.exists(exe) and os.path.getmtime(exe) >= newest:
            return exe, "cached"
        bd = os.path.join(RUNCACHE, "ocamlbuild-" + name)
        shutil.rmtree(bd, ignore_errors=True)
        os.makedirs(bd)
        for s in srcs:
            shutil.copy(s, bd)
        rc, out2 = sh(["ocamlfind", "ocamlopt", "-O2", "-w", "-a", "-package", "str", "-linkpkg",
                       "%s_model.mli" % name, "%s_model.ml" % name, "%s_driver.ml" % name, "-o", exe],
                      cwd=bd, timeout=timeout)
        if rc != 0:
            # -O2 only exists with flambda; retry without
            rc, out2 = sh(["ocamlfind", "ocamlopt", "-w", "-a", "-package", "str", "-linkpkg",
                           "%s_model.mli" % name, "%s_model.ml" % name, "%s_driver.ml" % name, "-o", exe],
                          cwd=bd, timeout=timeout)
        if rc != 0:
            return None, "ocaml build failed:\n" + out2
    return exe, out


# ------------------------------------------------------------------ known findings

def known_findings():
    p = os.path.join(ROOT, "known_findings.json")
    if not os.path.exists(p):
        return []
    return json.load(open(p)).get("findings", [])


# ------------------------------------------------------------------ context

class Ctx:
    def __init__(self, pid, tier, seed):
        self.pid = pid
        self.tier = tier
        self.seed = seed
        self.t0 = time.time()
        # one private work directory per run (checks may run concurrently, e.g. against VERIF_REPO worktrees);
        # directories of runs whose process has ended are removed
        wroot = os.path.join(CACHE, "work")
        os.makedirs(wroot, exist_ok=True)
        for d in os.listdir(wroot):
            m = re.match(r"^%s\.(\d+)$" % re.escape(pid), d)
            if (m and not os.path.exists("/proc/%s" % m.group(1))) or d == pid:
                shutil.rmtree(os.path.join(wroot, d), ignore_errors=True)
        self.workdir = os.path.join(wroot, "%s.%d" % (pid, os.getpid()))
        shutil.rmtree(self.workdir, ignore_errors=True)
        os.makedirs(self.workdir, exist_ok=True)
        os.makedirs(os.path.join(ROOT, "replays"), exist_ok=True)
        os.makedirs(os.path.join(ROOT, "evidence"), exist_ok=True)
        self.violations = []       # list of (key, what, replay_path, no_input)
        self.known_hits = []
        self.coverage = {}
        self.assumptions = []
        self.s1 = None
        self.notes = []

    @property
    def quick(self):
        return self.tier == "quick"

    # ---- S1
    def proof_obligations(self, extra_targets=(), timeout=1500):
        """Build Props/<pid>.vo (and extra targets), collect theorems, check assumptions & forbidden words.
        Returns dict with ok flag; records into coverage."""
        pid = self.pid
        res = {"ok": False, "theorems": [], "examples": [], "failed": [], "axioms": {}, "log": ""}
        target = "Props/%s.vo" % pid
        t = time.time()
        ok, out = coq_make([target] + list(extra_targets), timeout=timeout)
        res["build_s"] = round(time.time() - t, 1)
        res["log"] = out[-6000:]
        if not ok:
            m = re.search(r'File "\./([^"]+)", line (\d+)', out)
            where = ""
            if m:
                where = " at %s:%s" % (m.group(1), m.group(2))
                try:  # name the statement that no longer checks
                    src = open(os.path.join(COQ, m.group(1))).read().split("\n")
                    for i in range(min(int(m.group(2)), len(src)) - 1, -1, -1):
                        mm = re.match(r"\s*(?:Theorem|Lemma|Corollary|Example|Fact|Definition|Fixpoint)\s+([A-Za-z_0-9']+)", src[i])
                        if mm:
                            where += " (in `%s`)" % mm.group(1)
                            break
                except OSError:
                    pass
                em = re.search(r"\nError:(.*?)(?:\n\S|\Z)", out, flags=re.S)
                if em:
                    where += ": " + " ".join(em.group(1).split())[:300]
            res["failed"].append("build of %s failed%s" % (target, where))
            self.s1 = res
            return res
        thms, examples = props_theorems(pid)
        res["theorems"], res["examples"] = thms, examples
        deps = coq_deps("Props/%s.v" % pid)
        hits = grep_forbidden(deps)
        for h in hits:
            res["failed"].append("forbidden vernacular %s:%d: %s" % h)
        pa, raw = print_assumptions(pid, thms)
        if pa is None:
            res["failed"].append("Print Assumptions run failed: " + raw[-500:])
        else:
            allow = allowlist()
            for n in thms:
                ax = axioms_of(pa.get(n, "<missing>"))
                res["axioms"][n] = ax
                bad = [a for a in ax if a not in allow and a.split(".")[-1] not in allow]
                if bad:
                    res["failed"].append("theorem %s depends on non-allowlisted axioms: %s" % (n, ", ".join(bad)))
        res["ok"] = not res["failed"]
        self.s1 = res
        return res

    def coqchk(self, timeout=1800):
        rc, out = sh(["coqchk", "-silent", "-o", "-Q", COQ, "RV", "RV.Props.%s" % self.pid], cwd=COQ, timeout=timeout)
        return rc == 0, out

    # ---- S2 helpers
    def harness(self, name, args, timeout=1500, stdin=None):
        exe, out = cargo_bin(name)
        if exe is None:
            return None, "harness build failed:\n" + out[-4000:]
        env = {"VERIF_SEED": str(self.seed), "VERIF_TIER": self.tier, "RUST_BACKTRACE": "0"}
        rc, out = sh([exe] + [str(a) for a in args], cwd=self.workdir, env=env, timeout=timeout, input=stdin)
        return rc, out

    def driver(self, name, infile, outfile, args=(), timeout=1500):
        exe, out = ocaml_driver(name)
        if exe is None:
            return None, out[-4000:]
        with open(os.path.join(self.workdir, infile)) as fi, open(os.path.join(self.workdir, outfile), "w") as fo:
            try:
                p = subprocess.run(["bash", "-c", 'ulimit -s unlimited 2>/dev/null; exec "$0" "$@"', exe] + [str(a) for a in args],
                                   stdin=fi, stdout=fo, stderr=subprocess.PIPE, timeout=timeout, cwd=self.workdir)
            except subprocess.TimeoutExpired:
                return 124, "driver timeout"
        return p.returncode, p.stderr.decode(errors="replace")[-2000:]

    def diff_lines(self, a, b, limit=5):
        """Compare two files in workdir line by line; returns (n_lines_a, list of (lineno, a, b))."""
        la = open(os.path.join(self.workdir, a)).read().split("\n")
        lb = open(os.path.join(self.workdir, b)).read().split("\n")
        while la and la[-1] == "":
            la.pop()
        while lb and lb[-1] == "":
            lb.pop()
        diffs = []
        for i in range(max(len(la), len(lb))):
            x = la[i] if i < len(la) else "<missing>"
            y = lb[i] if i < len(lb) else "<missing>"
            if x != y:
                diffs.append((i + 1, x, y))
                if len(diffs) >= limit:
                    break
        return len(la), diffs

    # ---- outcome
    def replay_path(self, tag):
        # runs against another checkout (VERIF_REPO) keep their replays and evidence apart
        d = "replays" if REPO == "/repo" else os.path.join("replays", "alt-" + hashlib.sha1(REPO.encode()).hexdigest()[:10])
        os.makedirs(os.path.join(ROOT, d), exist_ok=True)
        return os.path.join(d, "%s-%s.json" % (self.pid, tag))

    def violation(self, key, what, replay_obj, no_input=False):
        """Record a violation. `key` identifies it for known_findings matching."""
        for k in known_findings():
            if k.get("property") == self.pid and k.get("status", "open") == "open" and (
                    k.get("key") == key or (k.get("key_prefix") and str(key).startswith(k["key_prefix"]))):
                if not any(w == k.get("what", what) for _, w in self.known_hits):
                    self.known_hits.append((key, k.get("what", what)))
                return
        if any(v[0] == key for v in self.violations):
            return  # one report per key; the first (usually smallest) instance is the replay
        tag = "unproved" if no_input else re.sub(r"[^A-Za-z0-9_.-]", "_", str(key))[:60] + "-%d" % self.seed
        rp = self.replay_path(tag)
        obj = {"property": self.pid, "seed": self.seed, "tier": self.tier, "key": key, "what": what}
        obj.update(replay_obj or {})
        with open(os.path.join(ROOT, rp), "w") as f:
            json.dump(obj, f, indent=1, default=str)
        self.violations.append((key, what, rp, no_input))

    def finish(self, level, coverage, assumptions=None, s2_ok=True, s2_detail=None, searched=None):
        """Apply the decision protocol and write evidence. Returns process exit code.
        - violations recorded with a concrete failing input -> VIOLATION lines
        - else if S1 or S2 broken -> VIOLATION ... no-failing-input-found
        """
        s1 = self.s1 or {"ok": True, "theorems": [], "examples": [], "failed": [], "axioms": {}}
        if not self.violations and (not s1["ok"] or not s2_ok):
            what = []
            if not s1["ok"]:
                what.append("proof obligations no longer check: " + "; ".join(s1["failed"]))
            if not s2_ok:
                what.append("correspondence model<->implementation broken: " + str(s2_detail)[:1500])
            self.violation("unproved", " | ".join(what),
                           {"broken_obligations": s1["failed"], "correspondence": s2_detail,
                            "coq_log_tail": s1.get("log", "")[-3000:], "search": searched or "directed search found no failing input"},
                           no_input=True)
        cov = dict(coverage)
        if level == "proof":
            cov.setdefault("obligations", len(s1["theorems"]))
            cov.setdefault("discharged", len(s1["theorems"]) if s1["ok"] else max(0, len(s1["theorems"]) - len(s1["failed"])))
            cov.setdefault("checker_cmd", "make -C coq Props/%s.vo (coqc 8.16.1, full .vo) + Print Assumptions per theorem" % self.pid)
            cov.setdefault("trusted_base", [])
            cov["theorems"] = s1["theorems"]
            cov["nonvacuity_examples"] = s1["examples"]
            cov["axioms_per_theorem"] = s1["axioms"]
        ev = {
            "property_id": self.pid, "tier": self.tier, "seed": self.seed, "level": level,
            "coverage": cov, "assumptions": assumptions or [], "wall_s": round(time.time() - self.t0, 2),
            "violations": len(self.violations),
            "known_findings_hit": [k for k, _ in self.known_hits],
            "repo": REPO,
        }
        evdir = os.path.join(ROOT, "evidence") if REPO == "/repo" else os.path.join(CACHE, "alt-evidence")
        os.makedirs(evdir, exist_ok=True)
        with open(os.path.join(evdir, self.pid + ".json"), "w") as f:
            json.dump(ev, f, indent=1, default=str)
        for key, what in self.known_hits:
            log("KNOWN-FINDING: property=%s %s" % (self.pid, what))
        for key, what, rp, no_input in self.violations:
            log("  violation detail: %s" % what[:2000])
            log("VIOLATION property=%s replay=%s%s" % (self.pid, rp, " no-failing-input-found" if no_input else ""))
        if self.violations:
            return 1
        log("PASS property=%s tier=%s seed=%d wall=%.1fs" % (self.pid, self.tier, self.seed, time.time() - self.t0))
        return 0
